/*
yrh - scriptable harness over the public libyara API.

Reads a line-oriented script (stdin or file), executes each command against the
real library and prints one JSON object per command.  A "case <id>" command
prints "BEGIN <id>" first (flushed) so that a crash or hang is attributed to the
right case, and "END <id>" after the case's cleanup + leak check.

Byte strings are hex ("-" = empty).  See vlib/harness.py for the Python side.
*/

#include <ctype.h>
#include <dirent.h>
#include <errno.h>
#include <fcntl.h>
#include <inttypes.h>
#include <signal.h>
#include <stdarg.h>
#include <stdio.h>
#include <stdlib.h>
#include <string.h>
#include <sys/mman.h>
#include <sys/prctl.h>
#include <sys/resource.h>
#include <sys/stat.h>
#include <sys/types.h>
#include <sys/wait.h>
#include <unistd.h>
#include <openssl/sha.h>

#include <yara.h>
#include <yara/verif.h>

#if defined(__SANITIZE_ADDRESS__)
#define HAVE_LSAN 1
int __lsan_do_recoverable_leak_check(void);
#else
#define HAVE_LSAN 0
#endif

static pid_t helper_pid; /* idle child whose memory the "proc" scan mode reads */

#define NCOMP 4
#define NRULES 8
#define NSCAN 8
#define NBUF 16
#define NIMG 6
#define NINCL 256

typedef struct
{
  uint8_t* p;
  size_t n;
} BYTES;

static YR_COMPILER* comps[NCOMP];
static YR_RULES* rules_[NRULES];
static YR_SCANNER* scans[NSCAN];
static int scan_rules_slot[NSCAN];
static int comp_errors[NCOMP];
static BYTES bufs[NBUF];
static BYTES imgs[NIMG];
static struct
{
  char* name;
  char* content;
} incls[NINCL];
static int nincl = 0;
static FILE* out;
static long max_rec = 20000;
static char workdir[512] = "/tmp";
static int dump_on_crules = 0;

// ---------------------------------------------------------------------------
// OOM injection (only linked with --wrap in the oom build; otherwise inert)

volatile int oom_in_api = 0;
volatile long oom_count = 0;
volatile long oom_fail_at = -1;   // 1-based index of the allocation to fail
volatile int oom_fail_after = 0;  // also fail every later one
volatile long oom_failed = 0;
volatile int oom_armed = 1;       // allocations are counted / failed only while armed

#define API(x)        \
  do                  \
  {                   \
    oom_in_api = 1;   \
    x;                \
    oom_in_api = 0;   \
  } while (0)

// ---------------------------------------------------------------------------

static void die(const char* fmt, ...)
{
  va_list ap;
  va_start(ap, fmt);
  fprintf(stderr, "yrh: ");
  vfprintf(stderr, fmt, ap);
  fprintf(stderr, "\n");
  va_end(ap);
  fflush(NULL);
  _exit(3);
}

static int hexval(int c)
{
  if (c >= '0' && c <= '9')
    return c - '0';
  if (c >= 'a' && c <= 'f')
    return c - 'a' + 10;
  if (c >= 'A' && c <= 'F')
    return c - 'A' + 10;
  return -1;
}

// decode hex token into malloc'ed buffer with an extra NUL
static BYTES unhex(const char* s)
{
  BYTES b;
  if (s == NULL || strcmp(s, "-") == 0)
  {
    b.p = (uint8_t*) calloc(1, 1);
    b.n = 0;
    return b;
  }
  size_t n = strlen(s);
  if (n % 2)
    die("odd hex length");
  b.n = n / 2;
  b.p = (uint8_t*) malloc(b.n + 1);
  for (size_t i = 0; i < b.n; i++)
  {
    int h = hexval(s[2 * i]), l = hexval(s[2 * i + 1]);
    if (h < 0 || l < 0)
      die("bad hex");
    b.p[i] = (uint8_t) (h * 16 + l);
  }
  b.p[b.n] = 0;
  return b;
}

static void jstr(FILE* f, const char* s)
{
  fputc('"', f);
  if (s)
    for (const unsigned char* p = (const unsigned char*) s; *p; p++)
    {
      if (*p == '"' || *p == '\\')
        fprintf(f, "\\%c", *p);
      else if (*p < 0x20 || *p >= 0x7f)
        fprintf(f, "\\u%04x", *p);
      else
        fputc(*p, f);
    }
  fputc('"', f);
}

static void jhex(FILE* f, const uint8_t* p, size_t n)
{
  fputc('"', f);
  for (size_t i = 0; i < n; i++) fprintf(f, "%02x", p[i]);
  fputc('"', f);
}

// ---------------------------------------------------------------------------
// compiler callbacks

typedef struct
{
  int n;
  int nerr;
  int nwarn;
  char* json;  // accumulated JSON array body
  size_t len, cap;
} MSGS;

static MSGS cmsgs;

static void msgs_reset(MSGS* m)
{
  free(m->json);
  memset(m, 0, sizeof(*m));
}

static void msgs_add(MSGS* m, const char* s)
{
  size_t l = strlen(s);
  if (m->len + l + 2 > m->cap)
  {
    m->cap = (m->len + l + 2) * 2;
    m->json = (char*) realloc(m->json, m->cap);
  }
  memcpy(m->json + m->len, s, l + 1);
  m->len += l;
}

static void compiler_cb(
    int level,
    const char* file,
    int line,
    const YR_RULE* rule,
    const char* msg,
    void* ud)
{
  oom_in_api = 0;
  cmsgs.n++;
  if (level == YARA_ERROR_LEVEL_ERROR)
    cmsgs.nerr++;
  else
    cmsgs.nwarn++;
  if (cmsgs.n <= 50)
  {
    char* tmp = NULL;
    size_t tl = 0;
    FILE* f = open_memstream(&tmp, &tl);
    fprintf(f, "%s[%d,%d,", cmsgs.n > 1 ? "," : "", level, line);
    jstr(f, file);
    fputc(',', f);
    jstr(f, msg);
    fputc(']', f);
    fclose(f);
    msgs_add(&cmsgs, tmp);
    free(tmp);
  }
  oom_in_api = 1;
}

static const char* include_cb(
    const char* name,
    const char* calling_file,
    const char* calling_ns,
    void* ud)
{
  int saved_in_api = oom_in_api;
  const char* res = NULL;
  oom_in_api = 0;
  for (int i = 0; i < nincl; i++)
    if (strcmp(incls[i].name, name) == 0)
    {
      res = strdup(incls[i].content);
      break;
    }
  oom_in_api = saved_in_api;
  return res;
}

static void include_free(const char* p, void* ud)
{
  free((void*) p);
}

// ---------------------------------------------------------------------------
// scan callback + recording

typedef struct
{
  int idx;         // k-th callback invocation of this scan
  int nacts;
  int act_idx[64];
  int act_ret[64];
  int type_ret[16];  // per message type override (-1 none)
  FILE* msgs;        // JSON array body
  FILE* matches;     // JSON object body
  int nmatchrules;
  const uint8_t* buf;  // linear view of the scanned data (may be NULL)
  size_t buflen;
  uint64_t base0;
  int inv;           // invariant violations found
  FILE* invf;
  uint32_t max_match_data;
  int record_matches;
} CBCTX;

static void record_rule_matches(YR_SCAN_CONTEXT* ctx, YR_RULE* rule, CBCTX* c)
{
  YR_STRING* s;
  YR_MATCH* m;
  int first_string = 1;
  int any = 0;

  yr_rule_strings_foreach(rule, s)
  {
    long n = 0;
    int64_t prev = -1;
    int opened = 0;
    yr_string_matches_foreach(ctx, s, m)
    {
      int64_t pos = m->base + m->offset;
      if (!opened)
      {
        if (!any)
        {
          fprintf(c->matches, "%s", c->nmatchrules++ ? "," : "");
          char key[600];
          snprintf(key, sizeof(key), "%s:%s", rule->ns->name, rule->identifier);
          jstr(c->matches, key);
          fprintf(c->matches, ":{");
          any = 1;
        }
        fprintf(c->matches, "%s", first_string ? "" : ",");
        first_string = 0;
        jstr(c->matches, s->identifier);
        fprintf(c->matches, ":[");
        opened = 1;
      }
      // list invariants visible through the API
      if (pos <= prev)
      {
        c->inv++;
        fprintf(c->invf, "%s", c->inv > 1 ? "," : "");
        fprintf(c->invf, "[\"order\",\"%s\",%" PRId64 ",%" PRId64 "]", s->identifier, prev, pos);
      }
      prev = pos;
      uint32_t expect_dl = (uint32_t) m->match_length < c->max_match_data ? (uint32_t) m->match_length : c->max_match_data;
      if (m->match_length < 0 || (uint32_t) m->data_length != expect_dl)
      {
        c->inv++;
        fprintf(c->invf, "%s", c->inv > 1 ? "," : "");
        fprintf(c->invf, "[\"datalen\",\"%s\",%" PRId64 ",%d,%d]", s->identifier, pos, m->match_length, m->data_length);
      }
      if (c->buf != NULL && m->data_length > 0)
      {
        uint64_t o = (uint64_t) pos - c->base0;
        if ((uint64_t) pos < c->base0 || o + (uint64_t) m->data_length > c->buflen ||
            memcmp(m->data, c->buf + o, m->data_length) != 0)
        {
          c->inv++;
          fprintf(c->invf, "%s", c->inv > 1 ? "," : "");
          fprintf(c->invf, "[\"data\",\"%s\",%" PRId64 ",%d]", s->identifier, pos, m->data_length);
        }
      }
      if (c->buf != NULL && (uint64_t) pos - c->base0 + (uint64_t) m->match_length > c->buflen)
      {
        c->inv++;
        fprintf(c->invf, "%s", c->inv > 1 ? "," : "");
        fprintf(c->invf, "[\"beyond\",\"%s\",%" PRId64 ",%d]", s->identifier, pos, m->match_length);
      }
      if (n < max_rec)
        fprintf(c->matches, "%s[%" PRId64 ",%d,%d]", n ? "," : "", pos, m->match_length, (int) m->xor_key);
      n++;
    }
    if (opened)
    {
      if (n > max_rec)
        fprintf(c->matches, ",[-1,%ld,0]", n);
      fprintf(c->matches, "]");
    }
  }
  if (any)
    fprintf(c->matches, "}");
}

static int scan_cb(YR_SCAN_CONTEXT* ctx, int message, void* data, void* ud)
{
  int saved = oom_in_api;
  oom_in_api = 0;
  CBCTX* c = (CBCTX*) ud;
  int ret = CALLBACK_CONTINUE;
  const char* name = NULL;
  char key[600];

  switch (message)
  {
  case CALLBACK_MSG_RULE_MATCHING:
  case CALLBACK_MSG_RULE_NOT_MATCHING:
  {
    YR_RULE* r = (YR_RULE*) data;
    snprintf(key, sizeof(key), "%s:%s", r->ns->name, r->identifier);
    name = key;
    if (c->record_matches)
      record_rule_matches(ctx, r, c);
    break;
  }
  case CALLBACK_MSG_IMPORT_MODULE:
    name = ((YR_MODULE_IMPORT*) data)->module_name;
    break;
  case CALLBACK_MSG_MODULE_IMPORTED:
    name = ((YR_OBJECT*) data)->identifier;
    break;
  case CALLBACK_MSG_TOO_MANY_MATCHES:
  case CALLBACK_MSG_TOO_SLOW_SCANNING:
    name = ((YR_STRING*) data)->identifier;
    break;
  case CALLBACK_MSG_CONSOLE_LOG:
    name = (const char*) data;
    break;
  default:
    name = NULL;
  }

  if (message >= 0 && message < 16 && c->type_ret[message] >= 0)
    ret = c->type_ret[message];
  for (int i = 0; i < c->nacts; i++)
    if (c->act_idx[i] == c->idx)
      ret = c->act_ret[i];

  fprintf(c->msgs, "%s[%d,", c->idx ? "," : "", message);
  jstr(c->msgs, name);
  fprintf(c->msgs, ",%d]", ret);
  c->idx++;
  oom_in_api = saved;
  return ret;
}

// ---------------------------------------------------------------------------
// block iterator with scripted not-ready answers

typedef struct
{
  int nblocks;
  YR_MEMORY_BLOCK* blocks;
  uint8_t** data;  // private copy of each block (ASan sees cross-block reads)
  int pos;
  int callno;
  int nnotready;
  int notready[256];
  uint64_t total;
  int has_size;
} ITCTX;

static const uint8_t* it_fetch(YR_MEMORY_BLOCK* b)
{
  return (const uint8_t*) b->context;
}

static YR_MEMORY_BLOCK* it_deliver(YR_MEMORY_BLOCK_ITERATOR* it)
{
  ITCTX* c = (ITCTX*) it->context;
  int call = c->callno++;
  for (int i = 0; i < c->nnotready; i++)
    if (c->notready[i] == call)
    {
      it->last_error = ERROR_BLOCK_NOT_READY;
      return NULL;
    }
  it->last_error = ERROR_SUCCESS;
  if (c->pos < c->nblocks)
    return &c->blocks[c->pos++];
  return NULL;
}

static YR_MEMORY_BLOCK* it_first(YR_MEMORY_BLOCK_ITERATOR* it)
{
  ((ITCTX*) it->context)->pos = 0;
  return it_deliver(it);
}

static YR_MEMORY_BLOCK* it_next(YR_MEMORY_BLOCK_ITERATOR* it)
{
  return it_deliver(it);
}

static uint64_t it_size(YR_MEMORY_BLOCK_ITERATOR* it)
{
  return ((ITCTX*) it->context)->total;
}

// ---------------------------------------------------------------------------
// streams

typedef struct
{
  BYTES* img;
  size_t pos;
  size_t chunk;
  size_t limit;  // write: fail after this many bytes (0 = never)
} STRM;

static size_t strm_write(const void* ptr, size_t size, size_t count, void* ud)
{
  STRM* s = (STRM*) ud;
  int saved_in_api = oom_in_api;
  oom_in_api = 0;
  size_t total = size * count;
  const uint8_t* p = (const uint8_t*) ptr;
#ifdef YRH_VALGRIND
  extern void yrh_check_defined(const void* p, size_t n);
  yrh_check_defined(ptr, total);
#endif
  size_t done = 0;
  while (done < total)
  {
    size_t c = s->chunk ? s->chunk : total;
    if (c > total - done)
      c = total - done;
    if (s->img->n + c + 1 > s->limit)
    {
      // capacity doubling (limit is reused as the capacity of the image buffer)
      s->limit = (s->img->n + c + 1) * 2 + 4096;
      s->img->p = (uint8_t*) realloc(s->img->p, s->limit);
    }
    memcpy(s->img->p + s->img->n, p + done, c);
    s->img->n += c;
    done += c;
  }
  oom_in_api = saved_in_api;
  return count;
}

static size_t strm_read(void* ptr, size_t size, size_t count, void* ud)
{
  STRM* s = (STRM*) ud;
  size_t total = size * count;
  uint8_t* p = (uint8_t*) ptr;
  size_t avail = s->img->n - s->pos;
  size_t items = count;
  if (total > avail)
  {
    items = size ? avail / size : 0;
    total = items * size;
  }
  size_t done = 0;
  while (done < total)
  {
    size_t c = s->chunk ? s->chunk : total;
    if (c > total - done)
      c = total - done;
    memcpy(p + done, s->img->p + s->pos, c);
    s->pos += c;
    done += c;
  }
  return items;
}

// ---------------------------------------------------------------------------

static int slot(const char* t, int max)
{
  if (t == NULL)
    die("missing slot");
  int v = atoi(t);
  if (v < 0 || v >= max)
    die("bad slot %s", t);
  return v;
}

static void free_all(void)
{
  for (int i = 0; i < NSCAN; i++)
    if (scans[i])
    {
      API(yr_scanner_destroy(scans[i]));
      scans[i] = NULL;
    }
  for (int i = 0; i < NRULES; i++)
    if (rules_[i])
    {
      API(yr_rules_destroy(rules_[i]));
      rules_[i] = NULL;
    }
  for (int i = 0; i < NCOMP; i++)
    if (comps[i])
    {
      API(yr_compiler_destroy(comps[i]));
      comps[i] = NULL;
    }
  for (int i = 0; i < NBUF; i++)
  {
    free(bufs[i].p);
    bufs[i].p = NULL;
    bufs[i].n = 0;
  }
  for (int i = 0; i < NIMG; i++)
  {
    free(imgs[i].p);
    imgs[i].p = NULL;
    imgs[i].n = 0;
  }
  for (int i = 0; i < nincl; i++)
  {
    free(incls[i].name);
    free(incls[i].content);
  }
  nincl = 0;
  msgs_reset(&cmsgs);
  yr_verif_arena_initial_size = 0;
  yr_verif_arena_exact_growth = 0;
  yr_verif_clock = NULL;
}

static void sha_hex(const uint8_t* p, size_t n, char* outhex)
{
  unsigned char d[SHA256_DIGEST_LENGTH];
  SHA256(p, n, d);
  for (int i = 0; i < SHA256_DIGEST_LENGTH; i++) sprintf(outhex + 2 * i, "%02x", d[i]);
}

static void dump_rules(YR_RULES* r, FILE* f, int with_ac)
{
  YR_RULE* rule;
  YR_STRING* s;
  YR_META* meta;
  const char* tag;
  int first = 1;
  fprintf(f, "\"rules\":[");
  yr_rules_foreach(r, rule)
  {
    fprintf(f, "%s{\"ns\":", first ? "" : ",");
    first = 0;
    jstr(f, rule->ns->name);
    fprintf(f, ",\"id\":");
    jstr(f, rule->identifier);
    fprintf(f, ",\"flags\":%d,\"natoms\":%d,\"req\":%u,\"tags\":[", rule->flags & 0x3, rule->num_atoms, rule->required_strings);
    int ft = 1;
    yr_rule_tags_foreach(rule, tag)
    {
      fprintf(f, "%s", ft ? "" : ",");
      ft = 0;
      jstr(f, tag);
    }
    fprintf(f, "],\"metas\":[");
    ft = 1;
    yr_rule_metas_foreach(rule, meta)
    {
      fprintf(f, "%s[", ft ? "" : ",");
      ft = 0;
      jstr(f, meta->identifier);
      fprintf(f, ",%d,%" PRId64 ",", meta->type, meta->integer);
      if (meta->type == META_TYPE_STRING)
        jstr(f, meta->string);
      else
        fprintf(f, "null");
      fprintf(f, "]");
    }
    fprintf(f, "],\"strings\":[");
    ft = 1;
    yr_rule_strings_foreach(rule, s)
    {
      fprintf(f, "%s[", ft ? "" : ",");
      ft = 0;
      jstr(f, s->identifier);
      fprintf(f, ",%u,%" PRId64 ",%d,", s->flags, s->fixed_offset, s->length);
      jhex(f, s->string, s->length > 0 ? (size_t) s->length : 0);
      fprintf(f, "]");
    }
    fprintf(f, "]}");
  }
  fprintf(f, "],\"nstrings\":%u,\"nrules\":%u,\"externals\":[", r->num_strings, r->num_rules);
  YR_EXTERNAL_VARIABLE* e = r->ext_vars_table;
  first = 1;
  while (e != NULL && !EXTERNAL_VARIABLE_IS_NULL(e))
  {
    fprintf(f, "%s[", first ? "" : ",");
    first = 0;
    jstr(f, e->identifier);
    int t = e->type == EXTERNAL_VARIABLE_TYPE_MALLOC_STRING ? EXTERNAL_VARIABLE_TYPE_STRING : e->type;
    fprintf(f, ",%d,", t);
    if (t == EXTERNAL_VARIABLE_TYPE_STRING)
      jstr(f, e->value.s);
    else if (t == EXTERNAL_VARIABLE_TYPE_FLOAT)
      fprintf(f, "\"%a\"", e->value.f);
    else
      fprintf(f, "%" PRId64, e->value.i);
    fprintf(f, "]");
    e++;
  }
  fprintf(f, "]");
  if (with_ac)
  {
    // chained strings and AC entries (coverage evidence only)
    fprintf(f, ",\"allstrings\":[");
    for (uint32_t i = 0; i < r->num_strings; i++)
    {
      YR_STRING* st = &r->strings_table[i];
      fprintf(f, "%s[%u,%u,%u,%d,%d,%d]", i ? "," : "", st->idx, st->flags, st->rule_idx,
              st->chained_to ? (int) st->chained_to->idx : -1, st->chain_gap_min, st->chain_gap_max);
    }
    fprintf(f, "],\"ac\":{");
    YR_ARENA_BUFFER* pool = &r->arena->buffers[YR_AC_STATE_MATCHES_POOL];
    size_t n = pool->used / sizeof(YR_AC_MATCH);
    // per string: the distinct backtrack values of its automaton entries
    int fm = 1;
    for (uint32_t si = 0; si < r->num_strings && si < 2000; si++)
    {
      unsigned char seen[8192];
      memset(seen, 0, sizeof(seen));
      int any = 0;
      for (size_t i = 0; i < n; i++)
      {
        YR_AC_MATCH* m = &r->ac_match_pool[i];
        if (m->string == NULL || m->string->idx != si)
          continue;
        unsigned bt = m->backtrack;
        if (bt < 8192 * 8 && !(seen[bt / 8] & (1 << (bt % 8))))
        {
          seen[bt / 8] |= (unsigned char) (1 << (bt % 8));
          if (!any)
            fprintf(f, "%s\"%u\":[", fm ? "" : ",", si);
          fprintf(f, "%s%u", any ? "," : "", bt);
          any = 1;
          fm = 0;
        }
      }
      if (any)
        fprintf(f, "]");
    }
    fprintf(f, "},\"nac\":%zu", n);
  }
}

static int define_var(int level, void* obj, const char* type, const char* name, const char* val)
{
  int rc = -1;
  BYTES sv;
  switch (type[0])
  {
  case 'i':
  {
    int64_t v = strtoll(val, NULL, 0);
    if (level == 0)
      API(rc = yr_compiler_define_integer_variable((YR_COMPILER*) obj, name, v));
    else if (level == 1)
      API(rc = yr_rules_define_integer_variable((YR_RULES*) obj, name, v));
    else
      API(rc = yr_scanner_define_integer_variable((YR_SCANNER*) obj, name, v));
    break;
  }
  case 'b':
  {
    int v = atoi(val);
    if (level == 0)
      API(rc = yr_compiler_define_boolean_variable((YR_COMPILER*) obj, name, v));
    else if (level == 1)
      API(rc = yr_rules_define_boolean_variable((YR_RULES*) obj, name, v));
    else
      API(rc = yr_scanner_define_boolean_variable((YR_SCANNER*) obj, name, v));
    break;
  }
  case 'f':
  {
    double v = strtod(val, NULL);
    if (level == 0)
      API(rc = yr_compiler_define_float_variable((YR_COMPILER*) obj, name, v));
    else if (level == 1)
      API(rc = yr_rules_define_float_variable((YR_RULES*) obj, name, v));
    else
      API(rc = yr_scanner_define_float_variable((YR_SCANNER*) obj, name, v));
    break;
  }
  case 's':
    sv = unhex(val);
    if (level == 0)
      API(rc = yr_compiler_define_string_variable((YR_COMPILER*) obj, name, (const char*) sv.p));
    else if (level == 1)
      API(rc = yr_rules_define_string_variable((YR_RULES*) obj, name, (const char*) sv.p));
    else
      API(rc = yr_scanner_define_string_variable((YR_SCANNER*) obj, name, (const char*) sv.p));
    free(sv.p);
    break;
  default:
    die("bad var type");
  }
  return rc;
}

// virtual clock driven by work counters (H2/H3)
static uint64_t vclock_base_bytes, vclock_base_vm;
static uint64_t vclock_scale = 1;
static uint64_t vclock(void* sw)
{
  return ((yr_verif_bytes_scanned - vclock_base_bytes) + (yr_verif_vm_instructions - vclock_base_vm)) * vclock_scale;
}

static void parse_cbscript(const char* t, CBCTX* c)
{
  c->nacts = 0;
  for (int i = 0; i < 16; i++) c->type_ret[i] = -1;
  if (t == NULL || strcmp(t, "-") == 0)
    return;
  char* dup = strdup(t);
  char* save = NULL;
  for (char* tok = strtok_r(dup, ",", &save); tok; tok = strtok_r(NULL, ",", &save))
  {
    char* colon = strchr(tok, ':');
    if (!colon)
      die("bad cbscript");
    int ret = colon[1] == 'a' ? CALLBACK_ABORT : colon[1] == 'e' ? CALLBACK_ERROR : colon[1] == 'c' ? CALLBACK_CONTINUE : atoi(colon + 1);
    if (tok[0] == 't')
    {
      int ty = atoi(tok + 1);
      if (ty >= 0 && ty < 16)
        c->type_ret[ty] = ret;
    }
    else if (c->nacts < 64)
    {
      c->act_idx[c->nacts] = atoi(tok);
      c->act_ret[c->nacts] = ret;
      c->nacts++;
    }
  }
  free(dup);
}

static void parse_intlist(const char* t, int* arr, int* n, int max)
{
  *n = 0;
  if (t == NULL || strcmp(t, "-") == 0)
    return;
  char* dup = strdup(t);
  char* save = NULL;
  for (char* tok = strtok_r(dup, ",", &save); tok && *n < max; tok = strtok_r(NULL, ",", &save))
    arr[(*n)++] = atoi(tok);
  free(dup);
}

// scan <target> <mode> <buf> <flags> <timeout> <cbscript> [partition] [notready] [maxcalls] [opts]
static void do_scan(char** tk, int ntk)
{
  if (ntk < 7)
    die("scan: too few args");
  const char* target = tk[1];
  const char* mode = tk[2];
  int b = slot(tk[3], NBUF);
  int flags = atoi(tk[4]);
  int timeout = atoi(tk[5]);
  CBCTX c;
  memset(&c, 0, sizeof(c));
  parse_cbscript(tk[6], &c);
  const char* part = ntk > 7 ? tk[7] : "-";
  const char* notready = ntk > 8 ? tk[8] : "-";
  int maxcalls = ntk > 9 ? atoi(tk[9]) : 1000;
  const char* opts = ntk > 10 ? tk[10] : "-";
  int use_vclock = strchr(opts, 'v') != NULL;
  int no_file_size = strchr(opts, 'z') != NULL;
  c.record_matches = strchr(opts, 'n') == NULL;

  char *mj = NULL, *xj = NULL, *ij = NULL;
  size_t ml = 0, xl = 0, il = 0;
  c.msgs = open_memstream(&mj, &ml);
  c.matches = open_memstream(&xj, &xl);
  c.invf = open_memstream(&ij, &il);
  c.buf = strcmp(mode, "proc") == 0 ? NULL : bufs[b].p;
  c.buflen = bufs[b].n;
  yr_get_configuration_uint32(YR_CONFIG_MAX_MATCH_DATA, &c.max_match_data);

  int is_scanner = target[0] == 's';
  int ti = slot(target + 1, is_scanner ? NSCAN : NRULES);
  YR_SCANNER* sc = is_scanner ? scans[ti] : NULL;
  YR_RULES* ru = is_scanner ? NULL : rules_[ti];
  if ((is_scanner && !sc) || (!is_scanner && !ru))
  {
    fclose(c.msgs);
    fclose(c.matches);
    fclose(c.invf);
    free(mj);
    free(xj);
    free(ij);
    fprintf(out, "{\"op\":\"scan\",\"rc\":-2,\"skipped\":1,\"msgs\":[],\"matches\":{},\"inv\":[]}\n");
    return;
  }

  int rc = -1;
  int calls = 0;
  char path[600];
  uint64_t bytes0 = yr_verif_bytes_scanned, vm0 = yr_verif_vm_instructions, cq0 = yr_verif_clock_queries;

  if (use_vclock)
  {
    vclock_base_bytes = yr_verif_bytes_scanned;
    vclock_base_vm = yr_verif_vm_instructions;
    // timeout is given in "work units" * 1e9 / scale : we scale units so that
    // `timeout` seconds == timeout * vclock_units_per_sec units of work.
    yr_verif_clock = vclock;
  }

  if (is_scanner)
  {
    yr_scanner_set_callback(sc, scan_cb, &c);
    if (strcmp(tk[4], "-") != 0)
      yr_scanner_set_flags(sc, flags);
    if (strcmp(tk[5], "-") != 0)
      yr_scanner_set_timeout(sc, timeout);
  }

  if (strcmp(mode, "mem") == 0)
  {
    // exact-size private copy so that ASan catches reads past the end
    uint8_t* copy = (uint8_t*) malloc(bufs[b].n ? bufs[b].n : 1);
    memcpy(copy, bufs[b].p, bufs[b].n);
    if (is_scanner)
      API(rc = yr_scanner_scan_mem(sc, copy, bufs[b].n));
    else
      API(rc = yr_rules_scan_mem(ru, copy, bufs[b].n, flags, scan_cb, &c, timeout));
    free(copy);
    calls = 1;
  }
  else if (strcmp(mode, "file") == 0 || strcmp(mode, "fd") == 0)
  {
    snprintf(path, sizeof(path), "%s/yrh_scan_%d.bin", workdir, (int) getpid());
    int fd = open(path, O_WRONLY | O_CREAT | O_TRUNC, 0600);
    if (fd < 0)
      die("cannot create %s", path);
    if (bufs[b].n && write(fd, bufs[b].p, bufs[b].n) != (ssize_t) bufs[b].n)
      die("short write");
    close(fd);
    if (strcmp(mode, "file") == 0)
    {
      if (is_scanner)
        API(rc = yr_scanner_scan_file(sc, path));
      else
        API(rc = yr_rules_scan_file(ru, path, flags, scan_cb, &c, timeout));
    }
    else
    {
      fd = open(path, O_RDONLY);
      if (is_scanner)
        API(rc = yr_scanner_scan_fd(sc, fd));
      else
        API(rc = yr_rules_scan_fd(ru, fd, flags, scan_cb, &c, timeout));
      // the descriptor belongs to the caller: the library may map it, it must not close it
      if (fcntl(fd, F_GETFD) == -1)
        fprintf(out, "{\"op\":\"apicheck\",\"what\":\"descriptor passed to scan_fd was closed by the library\"}\n");
      close(fd);
    }
    unlink(path);
    calls = 1;
  }
  else if (strcmp(mode, "proc") == 0)
  {
    // memory of a small idle helper process (started once, killed at exit); the buffer slot is ignored
    if (helper_pid <= 0)
    {
      // the parent must not look at the child before it has exec'ed: until then the child is a copy of this
      // (sanitized) process with terabytes of readable shadow mappings, and scanning those takes hours.  A close-on-exec
      // pipe tells the parent when the exec has happened (read returns 0), however loaded the machine is.
      int sync_pipe[2];
      if (pipe2(sync_pipe, O_CLOEXEC) != 0)
        die("pipe helper");
      helper_pid = fork();
      if (helper_pid == 0)
      {
        char* const argv[] = {(char*) "sleep", (char*) "100000", NULL};
        for (int fd = 3; fd < 256; fd++)
          if (fd != sync_pipe[1])
            close(fd);
        prctl(PR_SET_PDEATHSIG, SIGKILL);
        execv("/bin/sleep", argv);
        _exit(127);
      }
      if (helper_pid < 0)
        die("fork helper");
      close(sync_pipe[1]);
      {
        char ch;
        while (read(sync_pipe[0], &ch, 1) < 0 && errno == EINTR)
          ;
      }
      close(sync_pipe[0]);
      usleep(20000);
    }
    if (is_scanner)
      API(rc = yr_scanner_scan_proc(sc, helper_pid));
    else
      API(rc = yr_rules_scan_proc(ru, helper_pid, flags, scan_cb, &c, timeout));
    calls = 1;
  }
  else if (strcmp(mode, "blocks") == 0)
  {
    ITCTX ic;
    memset(&ic, 0, sizeof(ic));
    int sizes[256];
    int ns = 0;
    if (part[0] == '@')
    {
      // "@N": N blocks of (almost) equal size
      int nb = atoi(part + 1);
      if (nb < 1)
        nb = 1;
      if (nb > 200)
        nb = 200;
      size_t each = bufs[b].n / nb;
      for (int i = 0; i < nb; i++) sizes[i] = (int) each;
      sizes[nb - 1] = (int) (bufs[b].n - each * (nb - 1));
      ns = nb;
    }
    else
      parse_intlist(part, sizes, &ns, 256);
    if (ns == 0)
    {
      sizes[0] = (int) bufs[b].n;
      ns = 1;
    }
    size_t sum = 0;
    for (int i = 0; i < ns; i++) sum += sizes[i];
    if (sum != bufs[b].n)
      die("partition does not cover buffer");
    parse_intlist(notready, ic.notready, &ic.nnotready, 256);
    ic.nblocks = ns;
    ic.blocks = (YR_MEMORY_BLOCK*) calloc(ns, sizeof(YR_MEMORY_BLOCK));
    ic.data = (uint8_t**) calloc(ns, sizeof(uint8_t*));
    ic.total = bufs[b].n;
    size_t o = 0;
    for (int i = 0; i < ns; i++)
    {
      ic.data[i] = (uint8_t*) malloc(sizes[i] ? sizes[i] : 1);
      memcpy(ic.data[i], bufs[b].p + o, sizes[i]);
      ic.blocks[i].size = sizes[i];
      ic.blocks[i].base = o;
      ic.blocks[i].context = ic.data[i];
      ic.blocks[i].fetch_data = it_fetch;
      o += sizes[i];
    }
    YR_MEMORY_BLOCK_ITERATOR it;
    memset(&it, 0, sizeof(it));
    it.context = &ic;
    it.first = it_first;
    it.next = it_next;
    it.file_size = no_file_size ? NULL : it_size;
    it.last_error = ERROR_SUCCESS;
    do
    {
      if (is_scanner)
        API(rc = yr_scanner_scan_mem_blocks(sc, &it));
      else
        API(rc = yr_rules_scan_mem_blocks(ru, &it, flags, scan_cb, &c, timeout));
      calls++;
    } while (rc == ERROR_BLOCK_NOT_READY && calls < maxcalls && is_scanner);
    for (int i = 0; i < ns; i++) free(ic.data[i]);
    free(ic.data);
    free(ic.blocks);
    fprintf(out, "{\"op\":\"scan\",\"itcalls\":%d,", ic.callno);
    goto emit;
  }
  else
    die("scan: bad mode %s", mode);

  fprintf(out, "{\"op\":\"scan\",");
emit:
  if (use_vclock)
    yr_verif_clock = NULL;
  fclose(c.msgs);
  fclose(c.matches);
  fclose(c.invf);
  fprintf(out,
          "\"rc\":%d,\"calls\":%d,\"msgs\":[%s],\"matches\":{%s},\"inv\":[%s],"
          "\"work\":[%" PRIu64 ",%" PRIu64 ",%" PRIu64 "]}\n",
          rc, calls, mj ? mj : "", xj ? xj : "", ij ? ij : "",
          yr_verif_bytes_scanned - bytes0, yr_verif_vm_instructions - vm0, yr_verif_clock_queries - cq0);
  free(mj);
  free(xj);
  free(ij);
}

static char current_case[256];

static int cfg_dirty = 0;
static pid_t helper_pid = 0;

static void kill_helper(void)
{
  if (helper_pid > 0)
  {
    kill(helper_pid, SIGKILL);
    waitpid(helper_pid, NULL, 0);
    helper_pid = 0;
  }
}
static int fds_at_begin = -1;
static char fsbox[700];

/* number of open descriptors of this process (the DIR used for counting is open in both measurements) */
static int count_fds(void)
{
  int n = 0;
  DIR* d = opendir("/proc/self/fd");
  if (!d)
    return -1;
  while (readdir(d) != NULL) n++;
  closedir(d);
  return n;
}

static void rm_rf(const char* path)
{
  DIR* d = opendir(path);
  if (d)
  {
    struct dirent* e;
    while ((e = readdir(d)) != NULL)
    {
      if (strcmp(e->d_name, ".") == 0 || strcmp(e->d_name, "..") == 0)
        continue;
      char sub[1400];
      snprintf(sub, sizeof(sub), "%s/%s", path, e->d_name);
      rm_rf(sub);
    }
    closedir(d);
    rmdir(path);
  }
  else
    unlink(path);
}

static int end_case(void)
{
  int leak = 0;
  if (current_case[0])
  {
    free_all();
    if (fsbox[0])
    {
      if (chdir(workdir) != 0) die("chdir workdir");
      rm_rf(fsbox);
      fsbox[0] = 0;
    }
    int fds_now = count_fds();
    if (fds_at_begin >= 0 && fds_now != fds_at_begin)
      fprintf(out, "{\"op\":\"fds\",\"begin\":%d,\"end\":%d}\n", fds_at_begin, fds_now);
#if HAVE_LSAN
    if (getenv("YRH_NO_LEAKCHECK") == NULL)
      leak = __lsan_do_recoverable_leak_check();
#endif
    fprintf(out, "END %s %d\n", current_case, leak);
    fflush(out);
    current_case[0] = 0;
  }
  return leak;
}

// returns 1 if the process must stop (leak found: later reports would repeat it)
static int exec_line(char* line)
{
  char* tk[24];
  int ntk = 0;
  char* save = NULL;
  size_t L = strlen(line);
  while (L && (line[L - 1] == '\n' || line[L - 1] == '\r')) line[--L] = 0;
  if (L == 0 || line[0] == '#')
    return 0;
  for (char* t = strtok_r(line, " ", &save); t && ntk < 24; t = strtok_r(NULL, " ", &save)) tk[ntk++] = t;
  if (ntk == 0)
    return 0;
  const char* op = tk[0];
  int rc = 0;

  if (strcmp(op, "case") == 0)
  {
    if (end_case())
      return 1;
    snprintf(current_case, sizeof(current_case), "%s", ntk > 1 ? tk[1] : "?");
    /* the arena hook (H1) is process-global as well */
    yr_verif_arena_initial_size = 0;
    yr_verif_arena_exact_growth = 0;
    if (cfg_dirty)
    {
      /* configuration is process-global: a case never inherits what an earlier case of the batch set */
      yr_set_configuration_uint32(YR_CONFIG_STACK_SIZE, DEFAULT_STACK_SIZE);
      yr_set_configuration_uint32(YR_CONFIG_MAX_STRINGS_PER_RULE, DEFAULT_MAX_STRINGS_PER_RULE);
      yr_set_configuration_uint32(YR_CONFIG_MAX_MATCH_DATA, DEFAULT_MAX_MATCH_DATA);
      cfg_dirty = 0;
    }
    fds_at_begin = count_fds();
    fprintf(out, "BEGIN %s\n", current_case);
    fflush(out);
  }
  else if (strcmp(op, "end") == 0)
  {
    if (end_case())
      return 1;
  }
  else if (strcmp(op, "workdir") == 0)
  {
    snprintf(workdir, sizeof(workdir), "%s", tk[1]);
  }
  else if (strcmp(op, "maxrec") == 0)
  {
    max_rec = atol(tk[1]);
  }
  else if (strcmp(op, "dumpac") == 0)
  {
    dump_on_crules = atoi(tk[1]);
  }
  else if (strcmp(op, "cfg") == 0)
  {
    int name = -1;
    if (strcmp(tk[1], "stack") == 0)
      name = YR_CONFIG_STACK_SIZE;
    else if (strcmp(tk[1], "maxstrings") == 0)
      name = YR_CONFIG_MAX_STRINGS_PER_RULE;
    else if (strcmp(tk[1], "matchdata") == 0)
      name = YR_CONFIG_MAX_MATCH_DATA;
    else
      die("cfg name");
    uint32_t v = (uint32_t) strtoul(tk[2], NULL, 0);
    cfg_dirty = 1;
    API(rc = yr_set_configuration_uint32((YR_CONFIG_NAME) name, v));
    fprintf(out, "{\"op\":\"cfg\",\"rc\":%d}\n", rc);
  }
  else if (strcmp(op, "arena") == 0)
  {
    yr_verif_arena_initial_size = (size_t) strtoull(tk[1], NULL, 0);
    yr_verif_arena_exact_growth = ntk > 2 ? atoi(tk[2]) : 0;
  }
  else if (strcmp(op, "cnew") == 0)
  {
    int c = slot(tk[1], NCOMP);
    if (comps[c])
    {
      API(yr_compiler_destroy(comps[c]));
      comps[c] = NULL;
    }
    API(rc = yr_compiler_create(&comps[c]));
    comp_errors[c] = 0;
    if (rc == ERROR_SUCCESS)
    {
      yr_compiler_set_callback(comps[c], compiler_cb, NULL);
      // "cnew <c> fs": keep the library's default (file system) include callback
      if (!(ntk > 2 && strcmp(tk[2], "fs") == 0))
        yr_compiler_set_include_callback(comps[c], include_cb, include_free, NULL);
    }
    else
      comps[c] = NULL;
    fprintf(out, "{\"op\":\"cnew\",\"rc\":%d}\n", rc);
  }
  else if (strcmp(op, "fsbox") == 0)
  {
    // private directory for this case; becomes the working directory (relative includes resolve here)
    snprintf(fsbox, sizeof(fsbox), "%s/box%d", workdir, (int) getpid());
    rm_rf(fsbox);
    if (mkdir(fsbox, 0700) != 0 || chdir(fsbox) != 0) die("fsbox");
  }
  else if (strcmp(op, "mkfile") == 0 || strcmp(op, "mkdirp") == 0)
  {
    if (!fsbox[0]) die("mkfile outside fsbox");
    BYTES nm = unhex(tk[1]);
    if (strstr((char*) nm.p, "..") || nm.p[0] == '/') die("mkfile name");
    if (strcmp(op, "mkdirp") == 0)
      mkdir((char*) nm.p, 0700);
    else
    {
      BYTES content = unhex(tk[2]);
      FILE* f = fopen((char*) nm.p, "wb");
      if (!f) die("mkfile open");
      fwrite(content.p, 1, content.n, f);
      fclose(f);
      free(content.p);
    }
    free(nm.p);
  }
  else if (strcmp(op, "cfileinc") == 0)
  {
    // disable includes for compiler <c> (what the API does for a NULL callback)
    int c = slot(tk[1], NCOMP);
    yr_compiler_set_include_callback(comps[c], NULL, NULL, NULL);
  }
  else if (strcmp(op, "catoms") == 0)
  {
    int c = slot(tk[1], NCOMP);
    static BYTES tables[NCOMP];
    free(tables[c].p);
    tables[c] = unhex(tk[2]);
    int thr = ntk > 3 ? atoi(tk[3]) : 0;
    if (comps[c])
      yr_compiler_set_atom_quality_table(comps[c], tables[c].p, (int) (tables[c].n / 5), (unsigned char) thr);
  }
  else if (strcmp(op, "cdef") == 0)
  {
    int c = slot(tk[1], NCOMP);
    if (!comps[c])
    {
      fprintf(out, "{\"op\":\"cdef\",\"rc\":-2,\"skipped\":1}\n");
      fflush(out);
      return 0;
    }
    BYTES nm = unhex(tk[3]);
    rc = define_var(0, comps[c], tk[2], (const char*) nm.p, tk[4]);
    free(nm.p);
    fprintf(out, "{\"op\":\"cdef\",\"rc\":%d}\n", rc);
  }
  else if (strcmp(op, "incl") == 0)
  {
    if (nincl >= NINCL)
      die("too many includes");
    BYTES n = unhex(tk[1]), ct = unhex(tk[2]);
    incls[nincl].name = (char*) n.p;
    incls[nincl].content = (char*) ct.p;
    nincl++;
  }
  else if (strcmp(op, "cadd") == 0 || strcmp(op, "caddfile") == 0 || strcmp(op, "caddfd") == 0)
  {
    int c = slot(tk[1], NCOMP);
    if (!comps[c] || comp_errors[c])
    {
      // no compiler, or a previous add failed (the API forbids adding more sources then)
      fprintf(out, "{\"op\":\"cadd\",\"errors\":-2,\"skipped\":1,\"nerr\":0,\"nwarn\":0,\"msgs\":[]}\n");
      fflush(out);
      return 0;
    }
    BYTES ns = unhex(tk[2]);
    BYTES src = unhex(tk[3]);
    msgs_reset(&cmsgs);
    int errors = -1;
    const char* nsp = strcmp(tk[2], "-") == 0 ? NULL : (const char*) ns.p;
    if (strcmp(op, "cadd") == 0)
    {
      // exact-size copy: ASan sees reads past the terminating NUL
      char* copy = (char*) malloc(src.n + 1);
      memcpy(copy, src.p, src.n + 1);
      API(errors = yr_compiler_add_string(comps[c], copy, nsp));
      free(copy);
    }
    else
    {
      char path[600];
      snprintf(path, sizeof(path), "%s/yrh_src_%d.yar", workdir, (int) getpid());
      FILE* f = fopen(path, "wb");
      fwrite(src.p, 1, src.n, f);
      fclose(f);
      if (strcmp(op, "caddfile") == 0)
      {
        f = fopen(path, "rb");
        API(errors = yr_compiler_add_file(comps[c], f, nsp, path));
        fclose(f);
      }
      else
      {
        int fd = open(path, O_RDONLY);
        API(errors = yr_compiler_add_fd(comps[c], fd, nsp, path));
        if (fcntl(fd, F_GETFD) == -1)
          fprintf(out, "{\"op\":\"apicheck\",\"what\":\"descriptor passed to add_fd was closed by the library\"}\n");
        close(fd);
      }
      unlink(path);
    }
    if (errors != 0)
      comp_errors[c] = 1;
    fprintf(out, "{\"op\":\"cadd\",\"errors\":%d,\"nerr\":%d,\"nwarn\":%d,\"code\":%d,\"msgs\":[%s]}\n", errors, cmsgs.nerr, cmsgs.nwarn, comps[c]->last_error, cmsgs.json ? cmsgs.json : "");
    free(ns.p);
    free(src.p);
  }
  else if (strcmp(op, "crules") == 0)
  {
    int c = slot(tk[1], NCOMP), r = slot(tk[2], NRULES);
    if (rules_[r])
    {
      API(yr_rules_destroy(rules_[r]));
      rules_[r] = NULL;
    }
    if (comp_errors[c] || !comps[c])
    {
      // yr_compiler_get_rules must not be called after a failed compilation
      fprintf(out, "{\"op\":\"crules\",\"rc\":-2,\"skipped\":1}\n");
      fflush(out);
      return 0;
    }
    API(rc = yr_compiler_get_rules(comps[c], &rules_[r]));
    if (rc != ERROR_SUCCESS)
      rules_[r] = NULL;
    fprintf(out, "{\"op\":\"crules\",\"rc\":%d", rc);
    if (rc == ERROR_SUCCESS && dump_on_crules)
    {
      fprintf(out, ",");
      dump_rules(rules_[r], out, dump_on_crules > 1);
    }
    fprintf(out, "}\n");
  }
  else if (strcmp(op, "cdestroy") == 0)
  {
    int c = slot(tk[1], NCOMP);
    if (comps[c])
      API(yr_compiler_destroy(comps[c]));
    comps[c] = NULL;
  }
  else if (strcmp(op, "rinfo") == 0)
  {
    int r = slot(tk[1], NRULES);
    if (!rules_[r])
    {
      fprintf(out, "{\"op\":\"rinfo\",\"rc\":-2,\"skipped\":1}\n");
      fflush(out);
      return 0;
    }
    fprintf(out, "{\"op\":\"rinfo\",");
    dump_rules(rules_[r], out, ntk > 2 ? atoi(tk[2]) : 0);
    fprintf(out, "}\n");
  }
  else if (strcmp(op, "rsave") == 0)
  {
    // rsave <r> <img> <file|stream> <chunk>
    int r = slot(tk[1], NRULES), im = slot(tk[2], NIMG);
    if (!rules_[r])
    {
      fprintf(out, "{\"op\":\"rsave\",\"rc\":-2,\"skipped\":1}\n");
      fflush(out);
      return 0;
    }
    free(imgs[im].p);
    imgs[im].p = NULL;
    imgs[im].n = 0;
    if (strcmp(tk[3], "file") == 0)
    {
      char path[600];
      snprintf(path, sizeof(path), "%s/yrh_img_%d.yarc", workdir, (int) getpid());
      API(rc = yr_rules_save(rules_[r], path));
      if (rc == ERROR_SUCCESS)
      {
        FILE* f = fopen(path, "rb");
        fseek(f, 0, SEEK_END);
        long n = ftell(f);
        fseek(f, 0, SEEK_SET);
        imgs[im].p = (uint8_t*) malloc(n + 1);
        imgs[im].n = fread(imgs[im].p, 1, n, f);
        fclose(f);
      }
      unlink(path);
    }
    else
    {
      STRM s = {&imgs[im], 0, (size_t) atol(tk[4]), 0};
      YR_STREAM st = {&s, strm_read, strm_write};
      API(rc = yr_rules_save_stream(rules_[r], &st));
    }
    char hx[65] = "";
    if (imgs[im].p)
      sha_hex(imgs[im].p, imgs[im].n, hx);
    fprintf(out, "{\"op\":\"rsave\",\"rc\":%d,\"len\":%zu,\"sha\":\"%s\"}\n", rc, imgs[im].n, hx);
  }
  else if (strcmp(op, "rload") == 0)
  {
    // rload <img> <r> <file|stream> <chunk>
    int im = slot(tk[1], NIMG), r = slot(tk[2], NRULES);
    if (rules_[r])
    {
      API(yr_rules_destroy(rules_[r]));
      rules_[r] = NULL;
    }
    YR_RULES* nr = NULL;
    if (strcmp(tk[3], "file") == 0)
    {
      char path[600];
      snprintf(path, sizeof(path), "%s/yrh_img_%d.yarc", workdir, (int) getpid());
      FILE* f = fopen(path, "wb");
      if (imgs[im].n)
        fwrite(imgs[im].p, 1, imgs[im].n, f);
      fclose(f);
      API(rc = yr_rules_load(path, &nr));
      unlink(path);
    }
    else
    {
      // exact-size copy: ASan sees reads beyond the image
      BYTES copy;
      copy.n = imgs[im].n;
      copy.p = (uint8_t*) malloc(copy.n ? copy.n : 1);
      if (copy.n)
        memcpy(copy.p, imgs[im].p, copy.n);
      STRM s = {&copy, 0, (size_t) atol(tk[4]), 0};
      YR_STREAM st = {&s, strm_read, strm_write};
      API(rc = yr_rules_load_stream(&st, &nr));
      free(copy.p);
    }
    if (rc == ERROR_SUCCESS)
      rules_[r] = nr;
    fprintf(out, "{\"op\":\"rload\",\"rc\":%d,\"nonnull\":%d}\n", rc, nr != NULL);
  }
  else if (strcmp(op, "imgset") == 0)
  {
    int im = slot(tk[1], NIMG);
    free(imgs[im].p);
    imgs[im] = unhex(tk[2]);
  }
  else if (strcmp(op, "imgfile") == 0)
  {
    // imgfile <slot> <path>: load an image from a file
    int im = slot(tk[1], NIMG);
    FILE* f = fopen(tk[2], "rb");
    if (!f)
      die("imgfile: cannot open %s", tk[2]);
    fseek(f, 0, SEEK_END);
    long n = ftell(f);
    fseek(f, 0, SEEK_SET);
    free(imgs[im].p);
    imgs[im].p = (uint8_t*) malloc(n + 1);
    imgs[im].n = fread(imgs[im].p, 1, n, f);
    fclose(f);
  }
  else if (strcmp(op, "imgcut") == 0)
  {
    // imgcut <src> <dst> <n>: dst = first n bytes of src
    int a = slot(tk[1], NIMG), b2 = slot(tk[2], NIMG);
    size_t n = (size_t) atol(tk[3]);
    if (n > imgs[a].n)
      n = imgs[a].n;
    uint8_t* p = (uint8_t*) malloc(n + 1);
    memcpy(p, imgs[a].p, n);
    free(imgs[b2].p);
    imgs[b2].p = p;
    imgs[b2].n = n;
  }
  else if (strcmp(op, "imgpoke") == 0)
  {
    // imgpoke <src> <dst> <offset> <hexbytes>
    int a = slot(tk[1], NIMG), b2 = slot(tk[2], NIMG);
    size_t o = (size_t) atol(tk[3]);
    BYTES v = unhex(tk[4]);
    uint8_t* p = (uint8_t*) malloc(imgs[a].n + 1);
    memcpy(p, imgs[a].p, imgs[a].n);
    if (o + v.n <= imgs[a].n)
      memcpy(p + o, v.p, v.n);
    size_t n = imgs[a].n;
    free(imgs[b2].p);
    imgs[b2].p = p;
    imgs[b2].n = n;
    free(v.p);
  }
  else if (strcmp(op, "imgget") == 0)
  {
    int im = slot(tk[1], NIMG);
    fprintf(out, "{\"op\":\"imgget\",\"hex\":");
    jhex(out, imgs[im].p, imgs[im].n);
    fprintf(out, "}\n");
  }
  else if (strcmp(op, "rdef") == 0)
  {
    int r = slot(tk[1], NRULES);
    if (!rules_[r])
    {
      fprintf(out, "{\"op\":\"rdef\",\"rc\":-2,\"skipped\":1}\n");
      fflush(out);
      return 0;
    }
    BYTES nm = unhex(tk[3]);
    rc = define_var(1, rules_[r], tk[2], (const char*) nm.p, tk[4]);
    free(nm.p);
    fprintf(out, "{\"op\":\"rdef\",\"rc\":%d}\n", rc);
  }
  else if (strcmp(op, "rdestroy") == 0)
  {
    int r = slot(tk[1], NRULES);
    for (int i = 0; i < NSCAN; i++)
      if (scans[i] && scan_rules_slot[i] == r)
        die("rdestroy: scanner %d still uses rules %d", i, r);
    if (rules_[r])
      API(yr_rules_destroy(rules_[r]));
    rules_[r] = NULL;
  }
  else if (strcmp(op, "snew") == 0)
  {
    int r = slot(tk[1], NRULES), s = slot(tk[2], NSCAN);
    if (!rules_[r])
    {
      fprintf(out, "{\"op\":\"snew\",\"rc\":-2,\"skipped\":1}\n");
      fflush(out);
      return 0;
    }
    if (scans[s])
    {
      API(yr_scanner_destroy(scans[s]));
      scans[s] = NULL;
    }
    API(rc = yr_scanner_create(rules_[r], &scans[s]));
    if (rc != ERROR_SUCCESS)
      scans[s] = NULL;
    scan_rules_slot[s] = r;
    fprintf(out, "{\"op\":\"snew\",\"rc\":%d}\n", rc);
  }
  else if (strcmp(op, "sdef") == 0)
  {
    int s = slot(tk[1], NSCAN);
    if (!scans[s])
    {
      fprintf(out, "{\"op\":\"sdef\",\"rc\":-2,\"skipped\":1}\n");
      fflush(out);
      return 0;
    }
    BYTES nm = unhex(tk[3]);
    rc = define_var(2, scans[s], tk[2], (const char*) nm.p, tk[4]);
    free(nm.p);
    fprintf(out, "{\"op\":\"sdef\",\"rc\":%d}\n", rc);
  }
  else if (strcmp(op, "sdestroy") == 0)
  {
    int s = slot(tk[1], NSCAN);
    if (scans[s])
      API(yr_scanner_destroy(scans[s]));
    scans[s] = NULL;
  }
  else if (strcmp(op, "buf") == 0)
  {
    int b = slot(tk[1], NBUF);
    free(bufs[b].p);
    bufs[b] = unhex(tk[2]);
  }
  else if (strcmp(op, "bufrep") == 0)
  {
    // bufrep <b> <hexunit> <count> [<hex tail>]
    int b = slot(tk[1], NBUF);
    BYTES u = unhex(tk[2]);
    size_t cnt = (size_t) atol(tk[3]);
    BYTES tail = unhex(ntk > 4 ? tk[4] : "-");
    free(bufs[b].p);
    bufs[b].n = u.n * cnt + tail.n;
    bufs[b].p = (uint8_t*) malloc(bufs[b].n + 1);
    for (size_t i = 0; i < cnt; i++) memcpy(bufs[b].p + i * u.n, u.p, u.n);
    memcpy(bufs[b].p + u.n * cnt, tail.p, tail.n);
    free(u.p);
    free(tail.p);
  }
  else if (strcmp(op, "bufcut") == 0)
  {
    // bufcut <src> <dst> <n>: dst = first n bytes of src
    int a = slot(tk[1], NBUF), b2 = slot(tk[2], NBUF);
    size_t n = (size_t) atol(tk[3]);
    if (n > bufs[a].n)
      n = bufs[a].n;
    uint8_t* p = (uint8_t*) malloc(n + 1);
    memcpy(p, bufs[a].p, n);
    if (a != b2)
      free(bufs[b2].p);
    else
      free(bufs[a].p);
    bufs[b2].p = p;
    bufs[b2].n = n;
  }
  else if (strcmp(op, "bufpoke") == 0)
  {
    // bufpoke <src> <dst> <offset> <hexbytes>: dst = src with bytes overwritten
    int a = slot(tk[1], NBUF), b2 = slot(tk[2], NBUF);
    size_t o = (size_t) atol(tk[3]);
    BYTES v = unhex(tk[4]);
    uint8_t* p = (uint8_t*) malloc(bufs[a].n + 1);
    memcpy(p, bufs[a].p, bufs[a].n);
    for (size_t i = 0; i < v.n && o + i < bufs[a].n; i++) p[o + i] = v.p[i];
    size_t n = bufs[a].n;
    if (a != b2)
      free(bufs[b2].p);
    else
      free(bufs[a].p);
    bufs[b2].p = p;
    bufs[b2].n = n;
    free(v.p);
  }
  else if (strcmp(op, "buffile") == 0)
  {
    int b = slot(tk[1], NBUF);
    FILE* f = fopen(tk[2], "rb");
    if (!f)
      die("buffile: cannot open %s", tk[2]);
    fseek(f, 0, SEEK_END);
    long n = ftell(f);
    fseek(f, 0, SEEK_SET);
    free(bufs[b].p);
    bufs[b].p = (uint8_t*) malloc(n + 1);
    bufs[b].n = fread(bufs[b].p, 1, n, f);
    fclose(f);
  }
  else if (strcmp(op, "vclockscale") == 0)
  {
    vclock_scale = strtoull(tk[1], NULL, 0);
  }
  else if (strcmp(op, "scan") == 0)
  {
    do_scan(tk, ntk);
  }
  else if (strcmp(op, "init") == 0)
  {
    API(rc = yr_initialize());
    fprintf(out, "{\"op\":\"init\",\"rc\":%d}\n", rc);
  }
  else if (strcmp(op, "fini") == 0)
  {
    API(rc = yr_finalize());
    fprintf(out, "{\"op\":\"fini\",\"rc\":%d}\n", rc);
  }
  else if (strcmp(op, "oom") == 0)
  {
    // oom <k> <after>: fail the k-th allocation made inside API calls from now on
    oom_count = 0;
    oom_failed = 0;
    oom_fail_at = atol(tk[1]);
    oom_fail_after = ntk > 2 ? atoi(tk[2]) : 0;
  }
  else if (strcmp(op, "oomoff") == 0)
  {
    // end of the fault window
    oom_armed = 0;
    fprintf(out, "{\"op\":\"oomoff\"}\n");
  }
  else if (strcmp(op, "oomrearm") == 0)
  {
    oom_armed = 1;
  }
  else if (strcmp(op, "stats") == 0)
  {
    int r = slot(tk[1], NRULES);
    YR_RULES_STATS st;
    memset(&st, 0, sizeof(st));
    if (!rules_[r])
    {
      fprintf(out, "{\"op\":\"stats\",\"rc\":-2,\"skipped\":1}\n");
      fflush(out);
      return 0;
    }
    API(rc = yr_rules_get_stats(rules_[r], &st));
    fprintf(out, "{\"op\":\"stats\",\"rc\":%d,\"rules\":%u,\"strings\":%u,\"acm\":%u,\"root\":%u}\n", rc, st.num_rules, st.num_strings, st.ac_matches, st.ac_root_match_list_length);
  }
  else
    die("unknown op %s", op);
  fflush(out);
  return 0;
}

// run a whole script held in memory; returns 1 if stopped because of a leak
static int run_script(char* text)
{
  char* save = NULL;
  for (char* line = strtok_r(text, "\n", &save); line; line = strtok_r(NULL, "\n", &save))
  {
    char* copy = strdup(line);
    int stop = exec_line(copy);
    free(copy);
    if (stop)
      return 1;
  }
  return end_case();
}

static char* read_all(FILE* f)
{
  size_t cap = 1 << 16, n = 0;
  char* p = (char*) malloc(cap);
  size_t r;
  while ((r = fread(p + n, 1, cap - n - 1, f)) > 0)
  {
    n += r;
    if (cap - n < 4096)
    {
      cap *= 2;
      p = (char*) realloc(p, cap);
    }
  }
  p[n] = 0;
  return p;
}

/*
OOM enumeration mode:  yrh --oom <script> <kfrom> <kto> <after>
The script is run once without failures (dry run) to count N, then for each k in
[kfrom, min(kto, N)] a forked child runs it with the k-th allocation failing.
Child output goes to <workdir>/oom_<k>.out; the parent prints one JSON line per k
with exit status; classification happens in Python.
*/
static int oom_mode(int argc, char** argv)
{
  FILE* f = fopen(argv[2], "rb");
  if (!f)
    die("cannot open %s", argv[2]);
  char* text = read_all(f);
  fclose(f);
  long kfrom = atol(argv[3]), kto = atol(argv[4]);
  int after = atoi(argv[5]);
  const char* outdir = argv[6];
  long stride = argc > 7 ? atol(argv[7]) : 1;
  if (stride < 1)
    stride = 1;

  // dry run in a child to learn N and the baseline output
  char path[700];
  snprintf(path, sizeof(path), "%s/oom_base.out", outdir);
  pid_t pid = fork();
  if (pid == 0)
  {
    out = fopen(path, "w");
    char* t = strdup(text);
    oom_fail_at = -1;
    oom_count = 0;
    int leak = run_script(t);
    fprintf(out, "{\"op\":\"total\",\"count\":%ld,\"leak\":%d}\n", oom_count, leak);
    fclose(out);
    _exit(leak ? 77 : 0);
  }
  int st = 0;
  waitpid(pid, &st, 0);
  printf("{\"k\":0,\"status\":%d,\"sig\":%d}\n", WIFEXITED(st) ? WEXITSTATUS(st) : -1, WIFSIGNALED(st) ? WTERMSIG(st) : 0);
  fflush(stdout);
  // read N
  long N = 0;
  {
    FILE* bf = fopen(path, "r");
    char* bt = read_all(bf);
    fclose(bf);
    char* p = strstr(bt, "\"op\":\"total\",\"count\":");
    if (p)
      N = atol(p + strlen("\"op\":\"total\",\"count\":"));
    free(bt);
  }
  printf("{\"total\":%ld}\n", N);
  fflush(stdout);
  if (kto > N)
    kto = N;
  int running = 0;
  int maxpar = getenv("YRH_OOM_PAR") ? atoi(getenv("YRH_OOM_PAR")) : 1;
  if (maxpar > 64)
    maxpar = 64;
  pid_t pids[64];
  long ks[64];
  for (int i = 0; i < 64; i++) pids[i] = 0;
  for (long k = kfrom; k <= kto; k += stride)
  {
    while (running >= maxpar)
    {
      pid_t w = waitpid(-1, &st, 0);
      if (w <= 0)
        break;
      for (int i = 0; i < 64; i++)
        if (pids[i] == w)
        {
          printf("{\"k\":%ld,\"status\":%d,\"sig\":%d}\n", ks[i], WIFEXITED(st) ? WEXITSTATUS(st) : -1, WIFSIGNALED(st) ? WTERMSIG(st) : 0);
          pids[i] = 0;
        }
      running--;
    }
    pid = fork();
    if (pid == 0)
    {
      struct rlimit rl = {20, 25};
      setrlimit(RLIMIT_CPU, &rl);
      snprintf(path, sizeof(path), "%s/oom_%ld.out", outdir, k);
      out = fopen(path, "w");
      snprintf(path, sizeof(path), "%s/oom_%ld.err", outdir, k);
      int efd = open(path, O_WRONLY | O_CREAT | O_TRUNC, 0600);
      dup2(efd, 2);
      close(efd);
      char* t = strdup(text);
      oom_count = 0;
      oom_failed = 0;
      oom_fail_at = k;
      oom_fail_after = after;
      int leak = run_script(t);
      fprintf(out, "{\"op\":\"total\",\"count\":%ld,\"failed\":%ld,\"leak\":%d}\n", oom_count, oom_failed, leak);
      fclose(out);
      _exit(leak ? 77 : 0);
    }
    for (int i = 0; i < 64; i++)
      if (pids[i] == 0)
      {
        pids[i] = pid;
        ks[i] = k;
        break;
      }
    running++;
  }
  while (running > 0)
  {
    pid_t w = waitpid(-1, &st, 0);
    if (w <= 0)
      break;
    for (int i = 0; i < 64; i++)
      if (pids[i] == w)
      {
        printf("{\"k\":%ld,\"status\":%d,\"sig\":%d}\n", ks[i], WIFEXITED(st) ? WEXITSTATUS(st) : -1, WIFSIGNALED(st) ? WTERMSIG(st) : 0);
        pids[i] = 0;
      }
    running--;
  }
  printf("{\"done\":1}\n");
  free(text);
  return 0;
}

int main(int argc, char** argv)
{
  out = stdout;
  setvbuf(stdout, NULL, _IOFBF, 1 << 16);
  int rc = yr_initialize();
  if (rc != ERROR_SUCCESS)
    die("yr_initialize failed: %d", rc);
  atexit(kill_helper);
  if (argc > 1 && strcmp(argv[1], "--oom") == 0)
  {
    if (argc < 7)
      die("usage: yrh --oom script kfrom kto after outdir [stride]");
    return oom_mode(argc, argv);
  }
  FILE* in = stdin;
  if (argc > 1)
  {
    in = fopen(argv[1], "rb");
    if (!in)
      die("cannot open %s", argv[1]);
  }
  char* line = NULL;
  size_t cap = 0;
  int stop = 0;
  while (!stop && getline(&line, &cap, in) > 0) stop = exec_line(line);
  free(line);
  if (!stop)
    stop = end_case();
  fflush(out);
  if (stop)
  {
    fflush(NULL);
    _exit(77);
  }
  yr_finalize();
  return 0;
}
