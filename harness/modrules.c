/* modrules - dump the declaration tree of the given modules as JSON (used to generate rules that
   read every field, iterate every array/dictionary and call every function overload). */
#include <stdio.h>
#include <string.h>
#include <yara.h>
#include <yara/modules.h>
#include <yara/object.h>

static void dump(YR_OBJECT* o)
{
  printf("{\"name\":\"%s\",\"type\":%d", o->identifier ? o->identifier : "", o->type);
  if (o->type == OBJECT_TYPE_STRUCTURE)
  {
    printf(",\"members\":[");
    int first = 1;
    for (YR_STRUCTURE_MEMBER* m = object_as_structure(o)->members; m != NULL; m = m->next)
    {
      if (!first)
        printf(",");
      first = 0;
      dump(m->object);
    }
    printf("]");
  }
  else if (o->type == OBJECT_TYPE_ARRAY && object_as_array(o)->prototype_item)
  {
    printf(",\"item\":");
    dump(object_as_array(o)->prototype_item);
  }
  else if (o->type == OBJECT_TYPE_DICTIONARY && object_as_dictionary(o)->prototype_item)
  {
    printf(",\"item\":");
    dump(object_as_dictionary(o)->prototype_item);
  }
  else if (o->type == OBJECT_TYPE_FUNCTION)
  {
    YR_OBJECT_FUNCTION* f = object_as_function(o);
    printf(",\"ret\":%d,\"protos\":[", f->return_obj ? f->return_obj->type : 0);
    int first = 1;
    for (int i = 0; i < YR_MAX_OVERLOADED_FUNCTIONS; i++)
    {
      if (f->prototypes[i].arguments_fmt == NULL)
        break;
      printf("%s\"%s\"", first ? "" : ",", f->prototypes[i].arguments_fmt);
      first = 0;
    }
    printf("]");
  }
  printf("}");
}

int main(int argc, char** argv)
{
  yr_initialize();
  printf("[");
  for (int i = 1; i < argc; i++)
  {
    YR_OBJECT* o = NULL;
    if (yr_object_create(OBJECT_TYPE_STRUCTURE, argv[i], NULL, &o) != ERROR_SUCCESS)
      continue;
    int rc = yr_modules_do_declarations(argv[i], o);
    printf("%s{\"module\":\"%s\",\"rc\":%d,\"tree\":", i > 1 ? "," : "", argv[i], rc);
    dump(o);
    printf("}");
    yr_object_destroy(o);
  }
  printf("]\n");
  yr_finalize();
  return 0;
}
