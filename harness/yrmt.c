/*
yrmt - concurrent-scan stress harness (C09), built with -fsanitize=thread.

usage: yrmt <rules.yar> <workdir> <threads> <iterations> <seed> <yield 0|1> <file>...

One shared YR_RULES; reference traces (hash of callback sequence + match lists) are recorded
single-threaded for every (thread id, buffer, entry point, abort position) first; then the threads
run shuffled work lists and compare every scan with its reference.  H3 yield points widen overlap
windows and record which scan phases of different threads were observed concurrently.
Prints one JSON line.
*/
#include <fcntl.h>
#include <inttypes.h>
#include <pthread.h>
#include <sched.h>
#include <signal.h>
#include <stdatomic.h>
#include <sys/mman.h>
#include <stdio.h>
#include <stdlib.h>
#include <string.h>
#include <sys/stat.h>
#include <time.h>
#include <unistd.h>

#include <yara.h>
#include <yara/verif.h>

extern int exception_handler_usecount;

#define MAXT 32
#define MAXBUF 12
#define NENTRY 6   /* rules_mem, scanner_mem, scanner_file, scanner_fd, scanner_blocks */
#define NABORT 4   /* -1 (none), 0, 3, 7 */

typedef struct
{
  uint8_t* p;
  size_t n;
  char path[512];
} BUF;

static BUF bufs[MAXBUF];
static int nbufs = 0;
static YR_RULES* rules = NULL;
static int nthreads, iterations, do_yield;
static unsigned seed;
static uint64_t reference[MAXT][MAXBUF][NENTRY][NABORT];
static int ref_rc[MAXT][MAXBUF][NENTRY][NABORT];
static const int abort_at[NABORT] = {-1, 0, 3, 7};

static atomic_int phase_of[MAXT];          // current phase of each thread (0 = not scanning)
static atomic_ullong overlap[8];           // overlap[a] bit b: phase a seen while another thread was in phase b
static atomic_long scans_done, mismatches, points_hit, early_timeouts, timed_scans;
static atomic_long fd_closed, fault_scans, fault_wrong_rc;
static uint8_t* fault_map = NULL;  // two pages of a one-page file: touching the second page raises SIGBUS
static size_t fault_len = 0;
static int big_index = -1;
static __thread int my_tid = -1;
static __thread unsigned my_rng;
static char first_mismatch[600];
static pthread_mutex_t mm_mutex = PTHREAD_MUTEX_INITIALIZER;

typedef struct
{
  uint64_t h;
  int idx;
  int abort_idx;
  int abort_ret;
} CB;

static uint64_t mix(uint64_t h, uint64_t v)
{
  h ^= v + 0x9e3779b97f4a7c15ULL + (h << 6) + (h >> 2);
  return h;
}

static uint64_t hstr(uint64_t h, const char* s)
{
  while (s && *s) h = mix(h, (unsigned char) *s++);
  return h;
}

static int scan_cb(YR_SCAN_CONTEXT* ctx, int message, void* data, void* ud)
{
  CB* c = (CB*) ud;
  c->h = mix(c->h, (uint64_t) message);
  if (message == CALLBACK_MSG_RULE_MATCHING || message == CALLBACK_MSG_RULE_NOT_MATCHING)
  {
    YR_RULE* r = (YR_RULE*) data;
    YR_STRING* s;
    YR_MATCH* m;
    c->h = hstr(c->h, r->identifier);
    yr_rule_strings_foreach(r, s)
    {
      yr_string_matches_foreach(ctx, s, m)
      {
        c->h = mix(c->h, (uint64_t) (m->base + m->offset));
        c->h = mix(c->h, (uint64_t) m->match_length);
      }
    }
  }
  else if (message == CALLBACK_MSG_IMPORT_MODULE)
    c->h = hstr(c->h, ((YR_MODULE_IMPORT*) data)->module_name);
  int ret = CALLBACK_CONTINUE;
  if (c->idx == c->abort_idx)
    ret = c->abort_ret;
  c->idx++;
  return ret;
}

// block iterator over a private copy
typedef struct
{
  YR_MEMORY_BLOCK blocks[3];
  int n, pos;
  uint64_t total;
} IT;

static const uint8_t* it_fetch(YR_MEMORY_BLOCK* b) { return (const uint8_t*) b->context; }
static YR_MEMORY_BLOCK* it_next(YR_MEMORY_BLOCK_ITERATOR* it)
{
  IT* c = (IT*) it->context;
  it->last_error = ERROR_SUCCESS;
  return c->pos < c->n ? &c->blocks[c->pos++] : NULL;
}
static YR_MEMORY_BLOCK* it_first(YR_MEMORY_BLOCK_ITERATOR* it)
{
  ((IT*) it->context)->pos = 0;
  return it_next(it);
}
static uint64_t it_size(YR_MEMORY_BLOCK_ITERATOR* it) { return ((IT*) it->context)->total; }

static int one_scan(YR_SCANNER* sc, int tid, int b, int entry, int ab, uint64_t* out_h)
{
  CB cb = {0x1234, 0, abort_at[ab], (b + entry) % 2 ? CALLBACK_ABORT : CALLBACK_ERROR};
  int rc = -1;
  BUF* B = &bufs[b];
  switch (entry)
  {
  case 0:
    rc = yr_rules_scan_mem(rules, B->p, B->n, (b % 2) ? SCAN_FLAGS_FAST_MODE : 0, scan_cb, &cb, (tid % 3) ? 0 : 1000);
    break;
  case 1:
    yr_scanner_set_callback(sc, scan_cb, &cb);
    rc = yr_scanner_scan_mem(sc, B->p, B->n);
    break;
  case 2:
    yr_scanner_set_callback(sc, scan_cb, &cb);
    rc = yr_scanner_scan_file(sc, B->path);
    break;
  case 3:
  {
    int fd = open(B->path, O_RDONLY);
    yr_scanner_set_callback(sc, scan_cb, &cb);
    rc = yr_scanner_scan_fd(sc, fd);
    if (fcntl(fd, F_GETFD) == -1)
      atomic_fetch_add(&fd_closed, 1);  // the descriptor is the caller's, the library must not close it
    close(fd);
    break;
  }
  case 5:
  {
    // rule-set level descriptor scan (its own map/unmap path)
    int fd = open(B->path, O_RDONLY);
    rc = yr_rules_scan_fd(rules, fd, (b % 2) ? SCAN_FLAGS_FAST_MODE : 0, scan_cb, &cb, (tid % 3) ? 0 : 1000);
    if (fcntl(fd, F_GETFD) == -1)
      atomic_fetch_add(&fd_closed, 1);
    close(fd);
    break;
  }
  case 4:
  {
    IT ic;
    memset(&ic, 0, sizeof(ic));
    size_t cut = B->n / 2;
    ic.n = B->n > 1 ? 2 : 1;
    ic.blocks[0].size = ic.n == 2 ? cut : B->n;
    ic.blocks[0].base = 0;
    ic.blocks[0].context = B->p;
    ic.blocks[0].fetch_data = it_fetch;
    ic.blocks[1].size = B->n - cut;
    ic.blocks[1].base = cut;
    ic.blocks[1].context = B->p + cut;
    ic.blocks[1].fetch_data = it_fetch;
    ic.total = B->n;
    YR_MEMORY_BLOCK_ITERATOR it;
    memset(&it, 0, sizeof(it));
    it.context = &ic;
    it.first = it_first;
    it.next = it_next;
    it.file_size = it_size;
    yr_scanner_set_callback(sc, scan_cb, &cb);
    rc = yr_scanner_scan_mem_blocks(sc, &it);
    break;
  }
  }
  *out_h = mix(cb.h, (uint64_t) rc);
  return rc;
}

static YR_SCANNER* make_scanner(int tid)
{
  YR_SCANNER* sc = NULL;
  if (yr_scanner_create(rules, &sc) != ERROR_SUCCESS)
    return NULL;
  char val[32];
  snprintf(val, sizeof(val), "thread-%d", tid);
  yr_scanner_define_integer_variable(sc, "tid", tid);
  yr_scanner_define_string_variable(sc, "tname", val);
  yr_scanner_define_boolean_variable(sc, "todd", tid % 2);
  yr_scanner_define_float_variable(sc, "tf", tid + 0.5);
  yr_scanner_set_timeout(sc, (tid % 4 == 1) ? 500 : 0);
  return sc;
}

static void point_cb(int point, void* scanner)
{
  if (my_tid < 0)
    return;
  atomic_store(&phase_of[my_tid], point);
  atomic_fetch_add(&points_hit, 1);
  unsigned long long seen = 0;
  for (int t = 0; t < nthreads; t++)
    if (t != my_tid)
    {
      int p = atomic_load(&phase_of[t]);
      if (p > 0 && p < 8)
        seen |= 1ULL << p;
    }
  if (seen && point < 8)
    atomic_fetch_or(&overlap[point], seen);
  if (do_yield)
  {
    my_rng = my_rng * 1103515245u + 12345u;
    unsigned r = (my_rng >> 16) % 16;
    if (r < 4)
      sched_yield();
    else if (r == 4)
      usleep((my_rng >> 20) % 200);
  }
}

static void* worker(void* arg)
{
  int tid = (int) (intptr_t) arg;
  my_tid = tid;
  my_rng = seed * 2654435761u + tid * 40503u + 1;
  YR_SCANNER* sc = make_scanner(tid);
  if (!sc)
    return NULL;
  if (big_index >= 0)
  {
    // one long scan per thread with a real timeout: a timeout may only be reported after the deadline
    // has passed on the wall clock (per-scanner timeouts must not be driven by other threads' work)
    struct timespec t0, t1;
    CB cb = {0, 0, -1, 0};
    yr_scanner_set_callback(sc, scan_cb, &cb);
    yr_scanner_set_timeout(sc, 3);
    clock_gettime(CLOCK_MONOTONIC, &t0);
    int rc = yr_scanner_scan_mem(sc, bufs[big_index].p, bufs[big_index].n);
    clock_gettime(CLOCK_MONOTONIC, &t1);
    double el = (t1.tv_sec - t0.tv_sec) + (t1.tv_nsec - t0.tv_nsec) / 1e9;
    atomic_fetch_add(&timed_scans, 1);
    if (rc == ERROR_SCAN_TIMEOUT && el < 2.4)
      atomic_fetch_add(&early_timeouts, 1);
    atomic_store(&phase_of[tid], 0);
    yr_scanner_set_timeout(sc, (tid % 4 == 1) ? 500 : 0);
  }
  for (int it = 0; it < iterations; it++)
  {
    my_rng = my_rng * 1103515245u + 12345u;
    int b = (my_rng >> 8) % (big_index >= 0 ? nbufs - 1 : nbufs);
    int entry = (my_rng >> 12) % NENTRY;
    // only every fourth thread ends some of its scans from the callback (keeps the reference set small)
    int ab = (tid % 4 == 0 && (my_rng >> 16) % 3 == 0) ? 1 + (my_rng >> 20) % (NABORT - 1) : 0;
    uint64_t h;
    int rc = one_scan(sc, tid, b, entry, ab, &h);
    atomic_store(&phase_of[tid], 0);
    atomic_fetch_add(&scans_done, 1);
    int rt = (entry == 0 || entry == 5) ? 0 : tid;  // rules-level scans do not see scanner externals: reference of "thread 0 via rules"
    if (h != reference[rt][b][entry][ab])
    {
      atomic_fetch_add(&mismatches, 1);
      pthread_mutex_lock(&mm_mutex);
      if (!first_mismatch[0])
        snprintf(first_mismatch, sizeof(first_mismatch), "thread %d buffer %d (%s) entry %d abort_at %d: rc %d (reference rc %d)",
                 tid, b, bufs[b].path, entry, abort_at[ab], rc, ref_rc[rt][b][entry][ab]);
      pthread_mutex_unlock(&mm_mutex);
    }
    if (fault_map != NULL && (my_rng >> 26) % 24 == 0)
    {
      // a scan whose data faults (file truncated under a mapping): the library's SIGBUS handler turns it into
      // ERROR_COULD_NOT_MAP_FILE for THIS scan; scans running in other threads at that moment keep their protection
      CB cbf = {0, 0, -1, 0};
      int frc = yr_rules_scan_mem(rules, fault_map, fault_len, 0, scan_cb, &cbf, 0);
      atomic_store(&phase_of[tid], 0);
      atomic_fetch_add(&fault_scans, 1);
      if (frc != ERROR_COULD_NOT_MAP_FILE)
        atomic_fetch_add(&fault_wrong_rc, 1);
    }
    if ((my_rng >> 24) % 64 == 0)
    {
      // recreate the scanner now and then: creation/destruction concurrent with other threads' scans
      yr_scanner_destroy(sc);
      sc = make_scanner(tid);
      if (!sc)
        return NULL;
    }
  }
  yr_scanner_destroy(sc);
  return NULL;
}

int main(int argc, char** argv)
{
  if (argc < 8)
  {
    fprintf(stderr, "usage\n");
    return 3;
  }
  const char* rules_path = argv[1];
  const char* wd = argv[2];
  nthreads = atoi(argv[3]);
  iterations = atoi(argv[4]);
  seed = (unsigned) atoi(argv[5]);
  do_yield = atoi(argv[6]);
  if (nthreads > MAXT)
    nthreads = MAXT;
  if (yr_initialize() != ERROR_SUCCESS)
    return 3;
  for (int i = 7; i < argc && nbufs < MAXBUF; i++)
  {
    FILE* f = fopen(argv[i], "rb");
    if (!f)
      continue;
    fseek(f, 0, SEEK_END);
    long n = ftell(f);
    fseek(f, 0, SEEK_SET);
    bufs[nbufs].p = (uint8_t*) malloc(n + 1);
    bufs[nbufs].n = fread(bufs[nbufs].p, 1, n, f);
    fclose(f);
    snprintf(bufs[nbufs].path, sizeof(bufs[nbufs].path), "%s", argv[i]);
    if (strstr(argv[i], "BIGFILE") != NULL)
      big_index = nbufs;   // must be the last file
    nbufs++;
  }
  (void) wd;
  YR_COMPILER* comp;
  yr_compiler_create(&comp);
  yr_compiler_define_integer_variable(comp, "tid", -1);
  yr_compiler_define_string_variable(comp, "tname", "nobody");
  yr_compiler_define_boolean_variable(comp, "todd", 0);
  yr_compiler_define_float_variable(comp, "tf", -1.0);
  FILE* rf = fopen(rules_path, "r");
  if (!rf || yr_compiler_add_file(comp, rf, NULL, rules_path) != 0)
  {
    fprintf(stderr, "cannot compile rules\n");
    return 3;
  }
  fclose(rf);
  yr_compiler_get_rules(comp, &rules);
  yr_compiler_destroy(comp);

  struct sigaction bus0, segv0, bus1, segv1;
  sigaction(SIGBUS, NULL, &bus0);
  sigaction(SIGSEGV, NULL, &segv0);

  // reference traces, single-threaded
  long refs = 0;
  for (int t = 0; t < nthreads; t++)
  {
    my_tid = -1;
    YR_SCANNER* sc = make_scanner(t);
    for (int b = 0; b < (big_index >= 0 ? nbufs - 1 : nbufs); b++)
      for (int e = 0; e < NENTRY; e++)
        for (int a = 0; a < ((t % 4 == 0) ? NABORT : 1); a++)
        {
          ref_rc[t][b][e][a] = one_scan(sc, t, b, e, a, &reference[t][b][e][a]);
          refs++;
        }
    yr_scanner_destroy(sc);
  }

  if (getenv("YRMT_FAULTS") != NULL)
  {
    char fp[700];
    long page = sysconf(_SC_PAGESIZE);
    snprintf(fp, sizeof(fp), "%s/fault_%d.bin", wd, (int) getpid());
    int ffd = open(fp, O_RDWR | O_CREAT | O_TRUNC, 0600);
    if (ffd >= 0)
    {
      char* fill = (char*) malloc(page);
      memset(fill, 'n', page);
      memcpy(fill + 10, " needle ", 8);
      if (write(ffd, fill, page) == page)
      {
        void* m = mmap(NULL, 2 * page, PROT_READ, MAP_PRIVATE, ffd, 0);
        if (m != MAP_FAILED)
        {
          fault_map = (uint8_t*) m;
          fault_len = 2 * page;
        }
      }
      free(fill);
      close(ffd);
      unlink(fp);
    }
  }

  yr_verif_point = point_cb;
  pthread_t th[MAXT];
  for (int t = 0; t < nthreads; t++) pthread_create(&th[t], NULL, worker, (void*) (intptr_t) t);
  for (int t = 0; t < nthreads; t++) pthread_join(th[t], NULL);
  yr_verif_point = NULL;

  sigaction(SIGBUS, NULL, &bus1);
  sigaction(SIGSEGV, NULL, &segv1);
  int handlers_restored = bus0.sa_handler == bus1.sa_handler && segv0.sa_handler == segv1.sa_handler &&
                          bus0.sa_sigaction == bus1.sa_sigaction && segv0.sa_sigaction == segv1.sa_sigaction;
  int pairs = 0;
  for (int a = 1; a < 8; a++)
    for (int b = 1; b < 8; b++)
      if (atomic_load(&overlap[a]) & (1ULL << b))
        pairs++;
  printf("{\"threads\":%d,\"scans\":%ld,\"reference_scans\":%ld,\"mismatches\":%ld,\"usecount\":%d,\"handlers_restored\":%d,"
         "\"overlap_pairs\":%d,\"points\":%ld,\"timed_scans\":%ld,\"early_timeouts\":%ld,\"fd_closed\":%ld,\"fault_scans\":%ld,"
         "\"fault_wrong_rc\":%ld,\"first_mismatch\":\"%s\"}\n",
         nthreads, atomic_load(&scans_done), refs, atomic_load(&mismatches), exception_handler_usecount, handlers_restored, pairs,
         atomic_load(&points_hit), atomic_load(&timed_scans), atomic_load(&early_timeouts), atomic_load(&fd_closed),
         atomic_load(&fault_scans), atomic_load(&fault_wrong_rc), first_mismatch);
  yr_rules_destroy(rules);
  yr_finalize();
  return 0;
}
