/* Link-time allocation failure injection (oom variant only):
   -Wl,--wrap=malloc,--wrap=calloc,--wrap=realloc,--wrap=strdup,--wrap=strndup
   Only allocations made while the harness is inside a libyara API call count. */
#include <stddef.h>
#include <string.h>
#include <errno.h>
#include <stdio.h>

void __sanitizer_print_stack_trace(void);

extern volatile int oom_in_api;
extern volatile long oom_count;
extern volatile long oom_fail_at;
extern volatile int oom_fail_after;
extern volatile long oom_failed;
extern volatile int oom_armed;

void* __real_malloc(size_t);
void* __real_calloc(size_t, size_t);
void* __real_realloc(void*, size_t);
char* __real_strdup(const char*);
char* __real_strndup(const char*, size_t);

static int should_fail(void)
{
  if (!oom_in_api || !oom_armed)
    return 0;
  long k = ++oom_count;
  if (oom_fail_at > 0 && (k == oom_fail_at || (oom_fail_after && k > oom_fail_at)))
  {
    if (oom_failed++ == 0)
    {
      // where the injected failure happened (used as part of the finding key)
      fprintf(stderr, "OOM-INJECTED k=%ld\n", k);
      __sanitizer_print_stack_trace();
      fprintf(stderr, "OOM-INJECTED-END\n");
    }
    errno = ENOMEM;
    return 1;
  }
  return 0;
}

void* __wrap_malloc(size_t n) { return should_fail() ? NULL : __real_malloc(n); }
void* __wrap_calloc(size_t a, size_t b) { return should_fail() ? NULL : __real_calloc(a, b); }
void* __wrap_realloc(void* p, size_t n) { return should_fail() ? NULL : __real_realloc(p, n); }
char* __wrap_strdup(const char* s) { return should_fail() ? NULL : __real_strdup(s); }
char* __wrap_strndup(const char* s, size_t n) { return should_fail() ? NULL : __real_strndup(s, n); }
