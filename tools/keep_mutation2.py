#!/usr/bin/python3
"""keep_mutation2.py : copy the round-2 mutations (sub-agents in /tmp/mut2, three per property) into /verif/seeded/,
with the confirmation line (my own re-run of make check + demo in the scratch worktree) and the result of the final
trial of the current checks (tools/try_mutation2.sh on a scratch worktree at /repo's HEAD)."""
import glob, json, os, re, shutil, sys
SLUG = json.load(open(sys.argv[1]))          # {"C01:m1": ["slug", "note"], ...}
BASE = sys.argv[2] if len(sys.argv) > 2 else "/tmp/mut2"
ROUND = int(sys.argv[3]) if len(sys.argv) > 3 else 2
confirm = {}
for f in glob.glob(BASE + "/C??.result"):
    for l in open(f):
        m = re.match(r"CONFIRM " + BASE + "/(C\d\d)/out/(m\d): (.*)", l)
        if m:
            confirm[(m.group(1), m.group(2))] = m.group(3).strip()
final = {}
for f in glob.glob(BASE + "/final_*.result"):
    for l in open(f):
        m = re.match(r"TRY2 " + BASE + "/(C\d\d)/out/(m\d)/\S+ (C\d\d) seed=0 exit=(\d+) keys:(.*?)\| (.*)", l)
        if m:
            if final.get((m.group(1), m.group(2)), {}).get("exit") == 1 and int(m.group(4)) != 1:
                continue
            final[(m.group(1), m.group(2))] = dict(check=m.group(3), exit=int(m.group(4)), keys=re.sub(r"\s+", " ", m.group(5)).strip(), summary=m.group(6).strip())
for key, (slug, note) in sorted(SLUG.items()):
    pid, mn = key.split(":")
    src = BASE + "/%s/out/%s" % (pid, mn)
    if slug is None:
        print("skip", key, note)
        continue
    sid = "%s-%s" % (pid, slug)
    dst = "/verif/seeded/" + sid
    os.makedirs(dst, exist_ok=True)
    for fn in os.listdir(src):
        p = os.path.join(src, fn)
        if os.path.isfile(p) and os.path.getsize(p) < 300000 and not fn.endswith((".o", ".a")) and fn not in ("demo", "a.out"):
            shutil.copy(p, os.path.join(dst, fn))
    # helper headers the demos share (one level up)
    for fn in os.listdir(BASE + "/%s/out" % pid):
        p = os.path.join(BASE + "/%s/out" % pid, fn)
        if os.path.isfile(p) and fn.endswith(".h"):
            shutil.copy(p, os.path.join(dst, fn))
    readme = open(os.path.join(src, "README.md")).read() if os.path.exists(os.path.join(src, "README.md")) else ""
    fin = final.get((pid, mn), {})
    meta = {
        "id": sid, "breaks_property": pid, "round": ROUND,
        "source": "independent sub-agent given only the property text and a scratch worktree (asked for three changes in different functions)",
        "needs_to_manifest": readme[:1500],
        "confirmed_by_me": confirm.get((pid, mn), ""),
        "what_i_ran": ["tools/confirm_mutation.sh /tmp/mut2/%s /tmp/mut2/%s/out/%s  (scratch worktree: make check with the patch, demo with and without it)" % (pid, pid, mn),
                       "tools/try_mutation2.sh /tmp/mut2/%s seeded/%s/patch.diff %s  (patch applied to a scratch worktree at /repo's HEAD, check pointed at it with VERIF_REPO, patch reverted)" % (pid, sid, fin.get("check", pid))],
        "detected": fin.get("exit") == 1, "detected_by_check": fin.get("check", pid), "violation_keys": fin.get("keys", ""),
        "final_trial": fin.get("summary", ""),
    }
    if note:
        meta["strengthening"] = note
    json.dump(meta, open(os.path.join(dst, "meta.json"), "w"), indent=1)
    print("kept", sid, meta["detected"], meta["detected_by_check"])
