#!/bin/bash
# roundN.sh <base-dir> <ID> [check] [seed]: confirm and try every mutation a sub-agent left in <base-dir>/<ID>/out
B=$1; ID=$2; CHK=${3:-$ID}; SEED=${4:-0}; WT=$B/$ID
for m in $WT/out/m*; do
  [ -f $m/patch.diff ] || continue
  /verif/tools/confirm_mutation.sh $WT $m >> $B/$ID.result 2>&1
  /verif/tools/try_mutation2.sh $WT $m/patch.diff $CHK $SEED >> $B/$ID.result 2>&1
done
echo "ROUND $ID done" >> $B/$ID.result
