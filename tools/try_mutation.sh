#!/bin/bash
# try_mutation.sh <patch.diff> <ID> [<ID>...] : apply to /repo, run quick checks, undo.
P=$1; shift
cd /repo || exit 2
if [ -n "$(git status --porcelain --untracked-files=no)" ]; then echo "/repo not clean"; exit 2; fi
git apply "$P" || { echo "patch does not apply"; exit 2; }
for id in "$@"; do
  out=$(cd /verif && ./vf check $id --tier ${TIER:-quick} --seed ${SEED:-0} 2>&1); rc=$?
  keys=$(echo "$out" | grep "what:" | sort | uniq -c | tr '\n' ';')
  echo "TRY $P $id exit=$rc $keys"
  echo "$out" | tail -1
done
git -C /repo checkout -- .
