#!/bin/sh
# soak.sh <seed> [tier] [ids...] : run checks sequentially, log exit codes and summary lines
seed=$1; tier=${2:-quick}; shift; shift
ids=${*:-C01 C02 C03 C04 C05 C06 C07 C08 C09 C10 C11 C12 C13 C14 C15 C16 C17 C18 C19 C20}
log=/verif/work/soak_${tier}_$seed.log
mkdir -p /verif/work
for id in $ids; do
  s=$(date +%s)
  out=$(cd /verif && ./vf check $id --tier $tier --seed $seed 2>&1)
  rc=$?
  e=$(( $(date +%s) - s ))
  echo "$id rc=$rc ${e}s $(echo "$out" | grep -E 'VIOLATION|KNOWN-FINDING' | wc -l) lines | $(echo "$out" | tail -1 | cut -c1-200)" >> $log
  echo "$out" | grep VIOLATION >> $log
done
echo DONE >> $log
