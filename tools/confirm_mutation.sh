#!/bin/bash
# confirm_mutation.sh <worktree> <mutation-dir>
# Confirms in the scratch worktree: with the patch, `make check` passes and run.sh fails;
# without the patch run.sh passes. Prints one summary line.
WT=$1; M=$2
cd "$WT" || exit 2
git checkout -q -- . 2>/dev/null
if ! git apply --check "$M/patch.diff" 2>/dev/null; then echo "CONFIRM $M: patch does not apply"; exit 1; fi
git apply "$M/patch.diff"
make -j8 >/dev/null 2>&1
T=$(make -j8 check 2>&1 | grep -E "^# (PASS|FAIL):" | tr -d '\n')
bash "$M/run.sh" "$WT" >/tmp/confirm_$$.log 2>&1; R1=$?
git checkout -q -- .
make -j8 >/dev/null 2>&1
bash "$M/run.sh" "$WT" >>/tmp/confirm_$$.log 2>&1; R0=$?
rm -f /tmp/confirm_$$.log
echo "CONFIRM $M: tests[$T] demo_with_patch_exit=$R1 demo_without_patch_exit=$R0"
