#!/usr/bin/python3
"""Regenerates DESIGN.md sections 9.1-9.3 (fixes, known findings, seeded changes) from known_findings.json and seeded/*/meta.json."""
import glob, json, re
p = "/verif/DESIGN.md"
s = open(p).read()
a = s.index("### 9.1 ")
b = s.index("### 9.4 ")
d = json.load(open("/verif/known_findings.json"))
fixed = [f for f in d["findings"] if f["status"] == "fixed"]
known = [f for f in d["findings"] if f["status"] == "known"]
out = ["### 9.1 Genuine defects repaired in `/repo` (`fix:` commits; the unedited test suite passes 16/16 after each)\n",
       "| property | commit | what failed (witness in known_findings.json) |", "|---|---|---|"]
seen = set()
for f in fixed:
    k = (f["commit"], f["property"])
    if k in seen:
        continue
    seen.add(k)
    out.append("| %s | %s | %s |" % (f["property"], f["commit"], f.get("what", "").replace("|", "/")))
out.append("\n%d commits.  A `fixed` entry suppresses nothing: the same key would be a VIOLATION if it came back.\n" % len(set(f["commit"] for f in fixed)))
out.append("### 9.2 Known findings (genuine, recorded instead of repaired)\n")
out.append("| property | key | why not repaired here |\n|---|---|---|")
why = {"C02": "needs a redesign of chained-string verification (all piece lengths, ordering of tail candidates); not a small patch",
       "C03": "engine design (shortest/empty match first, split of counted repeats, chained lazy ranges); the pinned tests assert the zero-length behaviour",
       "C12": "same root cause as the C02 finding (chained strings with a variable-length piece)",
       "C08": "saving after a rules-level string define needs the value to live in the arena; touches the format",
       "C13": "evaluation-time re-iteration has no resumable state; needs an API-level design decision",
       "C14": "first_block/next_block contract gives no block for an empty range at a boundary; harmless but real",
       "C17": "the format has no length/checksum for the relocation table; rejecting needs a format change",
       "C16": "error paths of generated lexers (flex `yy_fatal_error` longjmp) and Aho-Corasick/atoms clean-up; each is a leak or a swallowed failure only when malloc fails; listed by allocation site"}
n16 = 0
for f in known:
    if f["property"] == "C16":
        n16 += 1
        continue
    out.append("| %s | `%s` | %s |" % (f["property"], f["key"], why.get(f["property"], "")))
out.append("| C16 | %d keys `leak:<site>` / `success-with-different-results:scan [allocation failed in <site>]` | %s |" % (n16, why["C16"]))
out.append("\n### 9.3 Seeded changes (written by sub-agents that saw only the property text; each compiles, passes `make check`, and its own demo shows the break)\n")
out.append("| seeded change | round | caught by (quick tier) | violation keys | check had to be strengthened? |\n|---|---|---|---|---|")
metas = [json.load(open(mp)) for mp in sorted(glob.glob("/verif/seeded/*/meta.json"))]
nstr = 0
ndet = 0
for m in metas:
    keys = m["violation_keys"]
    st = bool("missed by" in keys or "after " in keys or "added" in keys or "first version" in keys or
              ("missed" in (m.get("strengthening") or "")) or (m.get("round", 1) == 1 and m.get("strengthening")))
    nstr += st
    ndet += bool(m["detected"])
    out.append("| %s | %d | %s | %s | %s |" % (m["id"], m.get("round", 1), m["detected_by_check"] if m["detected"] else "NOT DETECTED",
                                              re.sub(r"\s+", " ", keys.replace("|", "/"))[:150], "yes" if st else "no"))
rounds = sorted(set(m.get("round", 1) for m in metas))
out.append("""
%d changes from %d rounds of sub-agents (round 1: two per property; round 2: three per property, asked to spread over
different functions; round 3 and 4: three each for eight and for the other twelve properties, asked to prefer shared infrastructure; round 5: one each for C07, C08, C11, C13, C14, C15, C17, C19, C20; a tenth, for C10, was an exact duplicate of a round-1 change and is not kept; eight caught by the unchanged check of their property, the C11 change - rule verdicts lost when `YR_CONFIG_MAX_MATCH_DATA` is 0 - was missed by C11, whose rule sets never varied that setting, and caught by C01; C11 now varies it in 30%% of its cases and catches the change itself); %d are detected by
the quick tier of the check named in the table.  Round 1 is applied to `/repo` itself (`tools/try_mutation.sh`), later
rounds to a scratch worktree at `/repo`'s HEAD that the check is pointed at with `VERIF_REPO` (`tools/try_mutation2.sh`:
evidence, replays and build output of a trial stay in the scratch tree).  %d of them were missed (or caught only
marginally) by the version of the check that existed when they arrived; what was added is recorded in
`seeded/<id>/meta.json` (`strengthening`).  A change is listed under the property its author was given; where the break
only shows through another property's machinery (for instance a per-scan bitmap that is not reset shows as a
scanner-history difference, C10, whichever property the author had in mind) the table names the check that catches it.
Not kept: one exact duplicate of a round-1 change, and one change that a later `fix:` commit neutralised (the loader now
rejects the header it relied on; its own demo passes on the current tree).

The recurring lesson: a generator that does not *name* the construct a property quantifies over (a second namespace,
`#a in (lo..hi)`, an undefined-valued global rule, a float external in a compiled rules file, a section table at the
end of the file, a namespace re-opened after another one, the other case of a `nocase` letter, an iterator without a
`file_size` callback, a process scan, more than 64 rules, 130 dictionary keys, a directory as include target, a
constant expression that is *not* folded) cannot see a break in it, however many cases it runs.
""" % (len(metas), len(rounds), ndet, nstr))
s = s[:a] + "\n".join(out) + "\n" + s[b:]
open(p, "w").write(s)
print(len(metas), "seeded;", ndet, "detected;", nstr, "strengthened")
