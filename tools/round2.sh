#!/bin/bash
# round2.sh <ID> [seed]: confirm and try every mutation a sub-agent left in /tmp/mut2/<ID>/out
ID=$1; SEED=${2:-0}; WT=/tmp/mut2/$ID
for m in $WT/out/m*; do
  [ -f $m/patch.diff ] || continue
  /verif/tools/confirm_mutation.sh $WT $m >> /tmp/mut2/$ID.result 2>&1
  /verif/tools/try_mutation2.sh $WT $m/patch.diff $ID $SEED >> /tmp/mut2/$ID.result 2>&1
done
echo "ROUND2 $ID done" >> /tmp/mut2/$ID.result
