#!/bin/bash
# try_mutation2.sh <worktree> <patch.diff> <ID> [seed] [extra vf args]
# Runs a check against a scratch worktree of /repo (never /repo itself): applies the patch there, points the check at it
# with VERIF_REPO, keeps build/evidence/replays of the trial under <worktree>/.verif_trial, reverts the patch.
WT=$1; P=$2; ID=$3; SEED=${4:-0}; shift 4 2>/dev/null
cd "$WT" || exit 2
git checkout -q -- . 2>/dev/null
git apply "$P" || { echo "TRY2 $P: patch does not apply"; exit 2; }
T=$WT/.verif_trial
mkdir -p $T
out=$(cd /verif && VERIF_REPO=$WT VERIF_BUILD=$T/build VERIF_OUT=$T/out VERIF_WORK=$T/work timeout 3000 ./vf check $ID --tier quick --seed $SEED "$@" 2>&1)
rc=$?
git checkout -q -- .
keys=$(ls $T/out/replays/$ID 2>/dev/null | sed 's/_[0-9a-f]*\.json$//' | sort | uniq -c | tr '\n' ';')
echo "TRY2 $P $ID seed=$SEED exit=$rc keys: $keys | $(echo "$out" | tail -1 | cut -c1-160)"
rm -rf $T/out $T/work
