#!/bin/bash
# repo_check.sh : run the repository's own test-suite (hooks off); exit 0 only if all 16 pass.
cd /repo && make -j16 check > /tmp/make_check.log 2>&1
P=$(grep -E "^# PASS:" /tmp/make_check.log | awk '{print $3}'); F=$(grep -E "^# FAIL:" /tmp/make_check.log | awk '{print $3}')
echo "repo tests: PASS=$P FAIL=$F"
[ "$P" = "16" ] && [ "$F" = "0" ]
