#!/usr/bin/python3
"""Regenerates /verif/MANIFEST.json from the table below (keeps it valid at all times)."""
import json
import os

HERE = os.path.dirname(os.path.dirname(os.path.abspath(__file__)))

HOOK_COMMITS = ["5738d96", "0e9a970", "12c92ab", "2c525dd"]

# pid -> (level category, technique, level text, level note, design ref)
CHECKS = {
    "C01": ("exploration",
            "reference-model oracle over recorded match lists (runtime monitoring under ASan/UBSan/LSan)",
            "Every generated (text-string declaration, buffer) pair is executed by the real engine under "
            "ASan+UBSan+LSan and its complete match list (offset, length, xor key) is compared with a brute-force "
            "reference model written from the manual; a small-scope sweep enumerates all short patterns x modifier "
            "sets x all short buffers. Held on the executions produced, not a proof.",
            "Trusted: the Python reference model (vlib/m_text.py), the harness's recording of match lists, gcc "
            "sanitizers. Ambiguous fullword delimiters are accepted either way.",
            "DESIGN.md section 2, C01"),
    "C02": ("exploration",
            "reference-model oracle over recorded match lists (runtime monitoring under ASan/UBSan/LSan)",
            "Every generated (hex pattern, buffer) pair runs in the real engine under sanitizers; reported offsets and "
            "lengths are compared with a set-of-positions matcher over the hex AST that has no atoms, no chaining and "
            "no backtracking. Buffers are built from satisfying instances and near-misses around every jump bound and "
            "on both sides of the 200-byte chaining threshold.",
            "Trusted: vlib/m_hex.py model and generator; patterns keep every un-split piece below 700 bytes. One "
            "known finding (chained patterns with a variable-length piece) is suppressed by class.",
            "DESIGN.md section 2, C02"),
    "C03": ("exploration",
            "reference-model oracle over recorded match lists and `matches` verdicts (runtime monitoring under ASan/UBSan/LSan)",
            "Every generated (regular expression, buffer) pair runs in the real engine under sanitizers; reported "
            "offsets/lengths and the verdict of `matches` are compared with a position-set regex matcher written from "
            "the manual (no atoms, no fibers, no backtracking); a small-scope sweep runs short expressions over {a,b,.} "
            "against ALL buffers up to length 6.",
            "Trusted: vlib/m_re.py. Five known-finding classes (zero-length matches, nullable misses, counted-repeat "
            "loops, chained lazy dot ranges, empty match at end for `matches`) are suppressed by predicate; fullword on "
            "variable-length expressions is checked with a sound sandwich.",
            "DESIGN.md section 2, C03"),
    "C04": ("exploration",
            "reference-model oracle over rule verdicts (runtime monitoring under ASan/UBSan/LSan)",
            "Random well-typed conditions, printed with minimal parentheses, are evaluated by the real compiler+VM under "
            "sanitizers on three buffers each and every rule verdict is compared with a Python evaluator of the "
            "documented language (undefined propagation, 64-bit arithmetic, precedence table, of/for quantifiers) "
            "working on brute-force match sets.",
            "Trusted: vlib/m_cond.py. Points where the manual is silent (quantifier 0, empty iteration sets under "
            "all/none, ordering of bytes >= 0x80, float equality within 1e-3) are not judged and counted.",
            "DESIGN.md section 2, C04"),
    "C05": ("exploration",
            "differential oracle between executions of the real engine (runtime monitoring under ASan/UBSan/LSan)",
            "For generated rule pools whose strings collide in atoms/prefixes/suffixes, every rule's verdict and "
            "complete match lists in the full compilation are compared with the same rule compiled alone with its "
            "dependencies, in a permuted order, with the namespace text cut into several add-source calls and nested "
            "includes, and with further rules added; pools of several hundred rules per namespace stress the shared "
            "automaton tables.",
            "Trusted: the harness's recording of verdicts and match lists; the generator's notion of 'references' and "
            "of global rules (side condition of the property).",
            "DESIGN.md section 2, C05"),
    "C11": ("fault_enumeration",
            "executable protocol model checked against recorded callback traces; exhaustive enumeration of interruption points",
            "For every generated rule set and report-flag setting the recorded callback sequence of the real scanner "
            "is compared with a small protocol model, and then every message position k is answered with abort and "
            "with error (one scan per (k, answer)); return codes and the absence of further rule/module messages are "
            "checked.",
            "Trusted: the model in checks/c11.py (rule truths are known by construction). Not constrained: whether "
            "SCAN_FINISHED follows an abort; abort answered to module messages.",
            "DESIGN.md section 2, C11"),
    "C08": ("exploration",
            "differential oracle between executions (original vs loaded rules, before vs after save) and byte equality of saved images across processes",
            "Generated rule sets covering every construct that stores a pointer in the arena are saved through a "
            "chunked stream and a file and loaded back; verdicts, match lists, callback traces, tags, metas and "
            "externals are compared between original and loaded rules, the original is rescanned after saving and the "
            "loaded rules after the original was destroyed; images from three saves, a re-save, and a second process "
            "with another heap fill byte / environment / arena capacity must be byte-identical. All under ASan+UBSan+LSan.",
            "Trusted: harness recording; ASan's malloc_fill_byte as the source of differing uninitialised bytes. One "
            "known finding (save after a rules-level string define aborts) is exercised by dedicated cases.",
            "DESIGN.md section 2, C08"),
    "C10": ("exploration",
            "differential oracle: reused scanner vs freshly created scanner on the same scan (same process), LSan after each history",
            "Random histories of scans on one scanner - different file kinds, callback aborts/errors, virtual-clock "
            "timeouts, match-limit hits, fiber-limit errors, not-ready suspensions resumed or abandoned, flag and "
            "external changes - are executed under ASan+UBSan+LSan; each scan's return code, callback trace and match "
            "lists are compared with the same scan on a new scanner with the same settings. Probe rules make "
            "entrypoint, filesize, module values, disabled-string state, fibers and hash caches observable.",
            "Trusted: harness recording; the virtual clock hook H2/H3 for timeouts. 'Same settings' means same flags, "
            "timeout and the same sequence of scanner-level external definitions.",
            "DESIGN.md section 2, C10"),
    "C13": ("fault_enumeration",
            "differential oracle between entry points; exhaustive enumeration of not-ready schedules (fault points = iterator calls)",
            "The same bytes are scanned through all eight public entry points (user iterator blocks are exact-size "
            "private heap copies, so ASan sees any read across a block or buffer end) and traces must be identical; for "
            "partitions into at most 4 blocks every subset of scanning-phase iterator calls answers not-ready and the "
            "repeated scan must end with exactly the uninterrupted trace; not-ready during evaluation-phase "
            "re-iteration is enumerated call by call.",
            "Trusted: harness iterator implementing the documented protocol. Known finding: not-ready during rule "
            "evaluation is ignored by the engine.",
            "DESIGN.md section 2, C13"),
    "C12": ("exploration",
            "metamorphic oracle between executions of the real engine (a rule vs its semantics-preserving twins)",
            "Each generated rule is run beside its twins - fast mode, two random atom-quality tables, forced "
            "evaluation, integer operands rewritten as constant expressions or externals, externals compiled with a "
            "different value and redefined at scanner or rule-set level - and verdicts (for atom tables also match "
            "lists) must agree; literal and constant-expression forms of rules that range/sign checks must reject are "
            "compiled separately and must be accepted/rejected alike. All under ASan+UBSan+LSan.",
            "Trusted: the constant-expression generator (self-checked against Python arithmetic), harness recording.",
            "DESIGN.md section 2, C12"),
    "C19": ("exploration",
            "differential oracle across initial arena capacities (hook H1) under ASan, whose realloc always relocates",
            "The same rule sources are compiled with the default capacity and with capacities from 1 byte upwards, "
            "including an exact-growth mode in which every allocation that does not fit moves its buffer; compile "
            "outcome, scan results, saved image bytes and a load of that image must be identical, and ASan turns any "
            "pointer held across a relocation into a use-after-free report. A 20000-rule set that outgrows the default "
            "buffers is compared rule by rule with the same rules compiled in groups.",
            "Trusted: hook H1 (compiler.c/arena.c, guard YARA_VERIF) only changes sizes; ASan's always-moving realloc.",
            "DESIGN.md section 2, C19"),
    "C20": ("exploration",
            "executable three-level environment model checked against recorded return codes and read-back scans of random operation histories",
            "Random sequences of compiler/rule-set/scanner defines (valid, wrong type, unknown, duplicate), scanner "
            "creations, scans and destroys are executed under ASan+UBSan+LSan; every return code and every scan's "
            "probe-rule verdict vector is compared with a model of the compile-time -> rule-set -> per-scanner value "
            "environment.",
            "Trusted: the model in checks/c20.py; int<->bool cross definitions follow the code the implementation returns.",
            "DESIGN.md section 2, C20"),
    "C14": ("exploration",
            "reference-value oracle (hashlib, zlib, Python arithmetic) embedded in rules evaluated by the real modules",
            "For small buffers every (offset, size) pair in [-2, n+2]^2 and for large buffers random pairs are turned "
            "into conditions that compare hash/math/string module results with independently computed references (or "
            "expect undefined), all compiled into one rule set in random order with repetitions so that the digest "
            "cache is exercised; evaluated over single buffers and contiguous multi-block iterators under sanitizers.",
            "Trusted: Python hashlib/zlib; the ported `ent` formulas for serial_correlation/monte_carlo_pi; tolerances.",
            "DESIGN.md section 2, C14"),
    "C17": ("fault_enumeration",
            "enumeration of cut points and single-field corruptions of saved files; return-code oracle plus differential scan of any accepted damaged file under ASan",
            "Files written by the library are truncated at every region boundary +-2, at relocation-entry boundaries and "
            "at sampled interior points (every prefix length for files <= 64 KiB in the thorough tier), and every header "
            "and buffer-table field is set to boundary values; each damaged file is loaded in its own harness case under "
            "ASan+UBSan+LSan, must be rejected with an error and no rule set, and if accepted must behave exactly like "
            "the intact rules.",
            "Trusted: harness; the file layout parsed in checks/c17.py. Known finding: cuts inside the trailing "
            "relocation table are accepted (format has no count/terminator).",
            "DESIGN.md section 2, C17"),
    "C16": ("fault_enumeration",
            "allocation-failure injection by link-time interposition (--wrap=malloc...), one forked ASan+LSan process per fault point, outcome classification against the fault-free run",
            "For five scenarios covering the API groups, the k-th allocation made inside libyara calls is made to fail "
            "(alone, and followed by all later ones) for every k up to 400 and a stride beyond (every k in the "
            "thorough tier, 77000 fault points); a child must not crash, leak, return success with results different "
            "from the fault-free run, or leave the library unusable (sentinel compile+scan afterwards).",
            "Trusted: the wrap layer (harness/oom_wrap.c) and the classification in checks/c16.py; libcrypto/libc internal "
            "allocations are not failed. 26 leak / swallowed-failure sites found by the exhaustive run are listed as known "
            "findings by (kind, site).",
            "DESIGN.md section 2, C16"),
    "C15": ("exploration",
            "table-driven boundary oracle (L-1, L, L+1, far beyond) plus logical-time monitoring of timeouts under a virtual clock hook",
            "Each engine limit is approached from both sides and the compile error / scan error / warning message and "
            "error code are compared with a table taken from limits.h, error.h and the manual; an unrelated witness "
            "rule and a sentinel compile+scan check independence and continued usability; long-running rule shapes run "
            "under a virtual clock (1 unit per scanned byte / VM instruction) and must stop within the check cadence "
            "after the deadline; real-clock smoke runs bound CPU time. All under ASan+UBSan+LSan.",
            "Trusted: the table in checks/c15.py; hooks H2/H3 (virtual clock, work counters). Work inside module "
            "functions and string verification is not counted.",
            "DESIGN.md section 2, C15"),
    "C18": ("exploration",
            "black-box differential on parsed CLI output records across thread counts / schedules / rule forms, plus an offline checker over the recorded queue event log (exactly-once, conservation, bounded queue)",
            "The real yara and yarac binaries are run on generated directory trees with random option sets: per-file "
            "single-threaded invocations, -p 1, and -p 2..32 under injected scheduling jitter and CPU pinning must print "
            "the same multiset of intact records; compiled rules with externals given at either stage must print the "
            "same; exit status must match the presence of an error message; the H4 event log proves every enqueued "
            "path was dequeued and scanned exactly once and the queue never held more than 64 entries.",
            "Trusted: the record parser; hook H4 (cli/yara.c) logs under the queue mutex. Schedules are sampled, not enumerated.",
            "DESIGN.md section 2, C18"),
    "C09": ("exploration",
            "ThreadSanitizer race detection plus reference-trace comparison and quiescent-point invariants under stress with injected yields",
            "1 to 32 threads scan one shared compiled rule set through every scan entry point with per-scanner "
            "externals that encode the thread id, aborting some scans from the callback and re-creating scanners "
            "while others scan; every scan's callback sequence and match lists are compared with a reference recorded "
            "single-threaded in the same process; TSan reports are de-duplicated by stack; after all threads joined the "
            "signal-handler use count must be 0 and SIGBUS/SIGSEGV dispositions restored; H3 yield points widen and "
            "record phase overlaps.",
            "Trusted: gcc TSan; the harness (harness/yrmt.c). Schedules are sampled; evidence reports the overlapping "
            "phase pairs actually observed.",
            "DESIGN.md section 2, C09"),
    "C07": ("exploration",
            "sanitizers + diagnosis-contract monitor over a grammar-position sweep and coverage-guided fuzzing (libFuzzer)",
            "Every token-level truncation/deletion/duplication/swap of ~40 seed rules that together use every grammar "
            "production, plus size stressors, is compiled under ASan+UBSan+LSan with the contract 'non-zero error count "
            "<=> error callback with message and line' checked per input and a sentinel compile+scan per batch; libFuzzer "
            "(clang) explores further with the same contract asserted in the driver.",
            "Trusted: harness and driver; the first 50 messages per compilation are inspected.",
            "DESIGN.md section 2, C07"),
    "C06": ("exploration",
            "sanitizers (ASan+UBSan+LSan), valgrind memcheck and a CPU watchdog over structure-aware sweeps and coverage-guided fuzzing (libFuzzer), with an introspection-generated rule set",
            "A rule set generated from every module's declaration tree reads every field, iterates every array and "
            "dictionary and calls every function overload; real PE/ELF/.NET/Mach-O/DEX seeds, their prefixes, "
            "boundary-value overwrites of every 32-bit word of the headers, tables and table targets located by small "
            "format parsers, and random data are scanned under ASan+UBSan+LSan with a CPU watchdog; a reduced set runs on "
            "an -O2 build under valgrind memcheck (uninitialised values); then libFuzzer explores from the same corpus. "
            "No functional oracle.",
            "Trusted: gcc/clang sanitizers (red-zone limits apply); macho and dex are compiled in by the verification "
            "build although the default configure leaves them out.",
            "DESIGN.md section 2, C06"),
}

NOT_YET = "check not built yet in this round (planned in DESIGN.md section 2); nothing is claimed for it"


def main():
    props = [json.loads(l) for l in open(os.path.join(HERE, "properties.jsonl"))]
    checks = []
    na = []
    for p in props:
        pid = p["id"]
        if pid in CHECKS:
            cat, tech, text, note, ref = CHECKS[pid]
            checks.append({
                "property_id": pid,
                "quick_cmd": "./vf check %s --tier quick" % pid,
                "thorough_cmd": "./vf check %s --tier thorough" % pid,
                "evidence_file": "evidence/%s.json" % pid,
                "replay_cmd_template": "./vf replay {path}",
                "engine": "yrh",
                "level_claimed": {"category": cat, "text": text, "design_ref": ref},
                "level_note": note,
                "technique": tech,
            })
        else:
            na.append({"property_id": pid, "reason": NOT_YET})
    man = {
        "version": 1,
        "setup_cmd": "./vf build asan",
        "hooks": {
            "guard": "YARA_VERIF",
            "enable": "checks compile /repo/libyara and /repo/cli themselves (vlib/build.py) with -DYARA_VERIF "
                      "-DMACHO_MODULE -DDEX_MODULE into /verif/build/<variant>; /repo's own in-tree build is untouched",
            "baseline_off_cmd": "make -C /repo -j16 check",
            "source_commits": HOOK_COMMITS,
            "add_only": True,
        },
        "engines": [
            {"name": "yrh", "path": "harness/yrh.c", "serves_properties": sorted(CHECKS),
             "kind_free_text": "scriptable C harness over the public libyara API, one binary per sanitizer variant "
                               "(asan/tsan/plain/fuzz/oom); Python generators, reference models and oracles in vlib/ "
                               "and checks/"},
        ],
        "checks": checks,
        "not_applicable": na,
        "notes": "Technique family: runtime monitoring and sanitizers. Every check rebuilds /repo's working tree "
                 "(content-digest cache) before running. Exit 0 held / 1 violation / 2 harness failure.",
    }
    with open(os.path.join(HERE, "MANIFEST.json"), "w") as f:
        json.dump(man, f, indent=1)
    print("MANIFEST.json: %d checks, %d not_applicable" % (len(checks), len(na)))


if __name__ == "__main__":
    main()
