#!/usr/bin/python3
"""keep_mutation.py <PID> <mN> <seeded-id> <detected:yes|no> <by-check> <keys> : copy a confirmed mutation into /verif/seeded/<seeded-id>/"""
import json, os, shutil, sys
pid, mn, sid, detected, by, keys = sys.argv[1:7]
src = "/tmp/mut/%s/out/%s" % (pid, mn)
dst = "/verif/seeded/%s" % sid
os.makedirs(dst, exist_ok=True)
for f in os.listdir(src):
    p = os.path.join(src, f)
    if os.path.isfile(p) and os.path.getsize(p) < 300000 and not f.endswith((".o", ".a")) and os.access(p, os.R_OK):
        if f in ("demo", "a.out") :
            continue
        shutil.copy(p, os.path.join(dst, f))
readme = open(os.path.join(src, "README.md")).read() if os.path.exists(os.path.join(src, "README.md")) else ""
confirm = ""
for log in ("/tmp/mut/confirm_a.log", "/tmp/mut/confirm_b.log", "/tmp/mut/confirm_c.log"):
    if os.path.exists(log):
        for l in open(log):
            if ("/%s/out/%s:" % (pid, mn)) in l:
                confirm = l.strip()
meta = {
    "id": sid, "breaks_property": pid,
    "source": "independent sub-agent given only the property text and a scratch worktree",
    "needs_to_manifest": readme[:1500],
    "confirmed_by_me": confirm,
    "what_i_ran": ["tools/confirm_mutation.sh /tmp/mut/%s /tmp/mut/%s/out/%s  (scratch worktree: make check with patch, demo with and without patch)" % (pid, pid, mn),
                   "tools/try_mutation.sh seeded/%s/patch.diff %s  (git -C /repo apply; ./vf check %s --tier quick; git -C /repo checkout -- .)" % (sid, by, by)],
    "detected": detected == "yes", "detected_by_check": by, "violation_keys": keys,
}
json.dump(meta, open(os.path.join(dst, "meta.json"), "w"), indent=1)
print("kept", dst)
