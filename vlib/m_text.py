"""Reference model + generator for text strings (C01). Written from docs/writingrules.rst;
no atoms, no automaton: brute-force search of every concrete variant."""
import random

B64_DEFAULT = b"ABCDEFGHIJKLMNOPQRSTUVWXYZabcdefghijklmnopqrstuvwxyz0123456789+/"
_LOWER = bytes((c + 32 if 65 <= c <= 90 else c) for c in range(256))

SURE, NO, AMBIG = 2, 0, 1


def isalnum(b):
    return 48 <= b <= 57 or 65 <= b <= 90 or 97 <= b <= 122


def widen(b):
    out = bytearray()
    for c in b:
        out.append(c)
        out.append(0)
    return bytes(out)


def b64_perms(plain, alphabet):
    """The three alignment permutations from first principles: the maximal run of
    base64 characters fully determined by `plain` placed at byte alignment a."""
    res = []
    n = len(plain)
    for a in (0, 1, 2):
        data = bytes(a) + plain + bytes(3)
        bits = 0
        nb = 0
        chars = []
        for byte in data:
            bits = (bits << 8) | byte
            nb += 8
            while nb >= 6:
                nb -= 6
                chars.append((bits >> nb) & 0x3F)
        first = -(-8 * a // 6)
        last = (8 * a + 8 * n) // 6 - 1
        if last >= first:
            res.append(bytes(alphabet[c] for c in chars[first:last + 1]))
    return res


class TextDecl:
    def __init__(self, text, nocase=False, ascii_=False, wide=False, fullword=False, xor=None,
                 b64=False, b64wide=False, alphabet=None, private=False):
        self.text = text
        self.nocase = nocase
        self.ascii = ascii_
        self.wide = wide
        self.fullword = fullword
        self.xor = xor          # (lo, hi) or None
        self.b64 = b64
        self.b64wide = b64wide
        self.alphabet = alphabet  # None = default
        self.private = private

    def mods(self):
        m = []
        if self.nocase:
            m.append("nocase")
        if self.ascii:
            m.append("ascii")
        if self.wide:
            m.append("wide")
        if self.fullword:
            m.append("fullword")
        if self.xor is not None:
            lo, hi = self.xor
            if (lo, hi) == (0, 255) and self.text[0] % 2:
                m.append("xor")
            elif lo == hi and self.text[0] % 3 == 0:
                m.append("xor(0x%02x)" % lo)
            else:
                m.append("xor(0x%02x-0x%02x)" % (lo, hi))
        if self.b64:
            m.append("base64" + (("(" + quote(self.alphabet) + ")") if self.alphabet else ""))
        if self.b64wide:
            m.append("base64wide" + (("(" + quote(self.alphabet) + ")") if self.alphabet else ""))
        if self.private:
            m.append("private")
        return m

    def render(self, ident, rng=None, private=None):
        m = self.mods()
        if private is not None:
            m = [x for x in m if x != "private"] + (["private"] if private else [])
        if rng:
            rng.shuffle(m)
        return "%s = %s %s" % (ident, quote(self.text, rng), " ".join(m))

    def sig(self):
        return (self.nocase, self.ascii, self.wide, self.fullword, self.xor is not None, self.b64, self.b64wide,
                self.alphabet is not None)

    def variants(self):
        """list of (pattern, key, kind) ; kind: 'a' ascii-like neighbours, 'w' wide neighbours"""
        plains = []
        is_b64 = self.b64 or self.b64wide
        if self.wide:
            plains.append((widen(self.text), "w"))
        if self.ascii or not self.wide:
            plains.append((self.text, "a"))
        out = []
        if is_b64:
            alpha = self.alphabet or B64_DEFAULT
            for p, _k in plains:
                for perm in b64_perms(p, alpha):
                    if self.b64:
                        out.append((perm, 0, "a"))
                    if self.b64wide:
                        out.append((widen(perm), 0, "w"))
            return out
        if self.xor is not None:
            lo, hi = self.xor
            for p, kind in plains:
                for k in range(lo, hi + 1):
                    out.append((bytes(c ^ k for c in p), k, kind))
            return out
        return [(p, 0, kind) for p, kind in plains]


def quote(b, rng=None):
    out = ['"']
    for c in b:
        ch = chr(c)
        if c == 0x22:
            out.append('\\"')
        elif c == 0x5c:
            out.append("\\\\")
        elif c == 9 and (rng is None or rng.random() < 0.5):
            out.append("\\t")
        elif c == 10 and (rng is None or rng.random() < 0.5):
            out.append("\\n")
        elif c == 13 and (rng is None or rng.random() < 0.5):
            out.append("\\r")
        elif 32 <= c < 127 and (rng is None or rng.random() < 0.8):
            out.append(ch)
        else:
            out.append("\\x%02x" % c if (rng is None or rng.random() < 0.5) else "\\x%02X" % c)
    out.append('"')
    return "".join(out)


def _side_ascii(buf, pos, key):
    """Delimiter status of the single byte at pos (None = outside buffer)."""
    if pos < 0 or pos >= len(buf):
        return SURE
    raw = isalnum(buf[pos])
    if key == 0:
        return NO if raw else SURE
    unx = isalnum(buf[pos] ^ key)
    if raw and unx:
        return NO
    if not raw and not unx:
        return SURE
    return AMBIG


def _unit_status(lo, hi, lone_counts):
    """One reading of a neighbouring two-byte unit (lo char byte, hi byte)."""
    if hi == 0:
        return NO if isalnum(lo) else SURE
    return None  # not a zero-extended unit: handled by caller


def _side_wide(buf, i, L, key, before):
    """Neighbour of a wide occurrence [i, i+L). Readings: the neighbouring two-byte unit is a
    character iff its high byte is zero (raw or un-xored); a neighbouring byte that is not part
    of a zero-extended unit may or may not count as a character."""
    n = len(buf)
    if before:
        if i - 1 < 0:
            return SURE
        adj = buf[i - 1]            # high byte of previous unit
        ch = buf[i - 2] if i - 2 >= 0 else None
    else:
        if i + L >= n:
            return SURE
        ch_pos = i + L
        adj_pos = i + L + 1
        ch = buf[ch_pos]
        adj = buf[adj_pos] if adj_pos < n else None
    results = set()
    for k in ((0,) if key == 0 else (0, key)):
        if before:
            hi = adj ^ k
            lo = None if ch is None else ch ^ k
            if hi == 0 and lo is not None:
                results.add(NO if isalnum(lo) else SURE)
            elif hi == 0 and lo is None:
                results.add(SURE)
            else:
                # lone byte adjacent (hi != 0): character or not?
                results.add(SURE)
                if isalnum(hi):
                    results.add(NO)
        else:
            lo = ch ^ k
            hi = None if adj is None else adj ^ k
            if hi == 0:
                results.add(NO if isalnum(lo) else SURE)
            else:
                results.add(SURE)
                if isalnum(lo):
                    results.add(NO)
    if results == {SURE}:
        return SURE
    if results == {NO}:
        return NO
    return AMBIG


def find_all(hay, pat):
    res = []
    i = hay.find(pat)
    while i >= 0:
        res.append(i)
        i = hay.find(pat, i + 1)
    return res


def expected(decl, buf):
    """Returns (must, may, valid) : must/may sets of offsets, valid: off -> set((len, key))."""
    cands = {}
    hay = buf.translate(_LOWER) if decl.nocase else buf
    for pat, key, kind in decl.variants():
        p = pat.translate(_LOWER) if decl.nocase else pat
        if not p:
            continue
        for i in find_all(hay, p):
            st = SURE
            if decl.fullword:
                L = len(p)
                if kind == "a":
                    s1 = _side_ascii(buf, i - 1, key)
                    s2 = _side_ascii(buf, i + L, key)
                else:
                    s1 = _side_wide(buf, i, L, key, True)
                    s2 = _side_wide(buf, i, L, key, False)
                if s1 == NO or s2 == NO:
                    st = NO
                elif s1 == AMBIG or s2 == AMBIG:
                    st = AMBIG
            cands.setdefault(i, []).append((len(p), key, st))
    must, may, valid = set(), set(), {}
    for off, lst in cands.items():
        best = max(s for _, _, s in lst)
        if best == SURE:
            must.add(off)
        if best >= AMBIG:
            may.add(off)
            valid[off] = set((l, k) for l, k, s in lst if s != NO)
    # An offset where one variant surely qualifies but the engine may have picked another
    # variant (same offset) that fails fullword: the engine tests variants in a fixed order and
    # stops at the first that matches the bytes, so such offsets are optional, not mandatory.
    for off, lst in cands.items():
        if off in must and any(s == NO for _, _, s in lst):
            must.discard(off)
    return must, may, valid


# ---------------------------------------------------------------------------
# generator

POOL = [0x61, 0x62, 0x41, 0x42, 0x7a, 0x31, 0x39, 0x2e, 0x2d, 0x5f, 0x00, 0x20, 0x90, 0xcc, 0xff, 0x0a, 0x22, 0x5c,
        0x80, 0x7f, 0xe9]


def gen_alphabet(rng):
    r = rng.random()
    if r < 0.35:
        k = rng.choice([2, 2, 3, 4])
        return [rng.choice(POOL) for _ in range(k)]
    if r < 0.6:
        return [0x61, 0x62, 0x63, 0x41, 0x42, 0x31, 0x20, 0x2e]
    if r < 0.8:
        return POOL
    return list(range(256))


def gen_decl(rng):
    alpha = gen_alphabet(rng)
    r = rng.random()
    if r < 0.3:
        n = rng.randint(1, 4)
    elif r < 0.6:
        n = rng.randint(5, 8)
    else:
        n = rng.randint(9, 40)
    text = bytes(rng.choice(alpha) for _ in range(n))
    d = TextDecl(text)
    kind = rng.random()
    if kind < 0.18:
        # base64 family
        d.b64 = rng.random() < 0.7
        d.b64wide = (not d.b64) or rng.random() < 0.3
        if rng.random() < 0.4:
            chars = [c for c in range(33, 127)] + [9]
            rng.shuffle(chars)
            d.alphabet = bytes(chars[:64])
        w = rng.random()
        d.wide = w < 0.35
        d.ascii = 0.25 < w < 0.6
    else:
        w = rng.random()
        d.wide = w < 0.45
        d.ascii = 0.3 < w < 0.65
        if kind < 0.5:
            r2 = rng.random()
            if r2 < 0.35:
                d.xor = (0, 255)
            elif r2 < 0.6:
                k = rng.choice([0, 1, 0x20, 0x41, 0x61, 0xff, rng.randint(0, 255)])
                d.xor = (k, k)
            else:
                lo = rng.choice([0, 1, 0x1f, 0x20, 0x40, rng.randint(0, 255)])
                hi = min(255, lo + rng.choice([1, 2, 15, 31, 64, 255]))
                d.xor = (lo, hi)
        elif kind < 0.75:
            d.nocase = True
        d.fullword = rng.random() < 0.35
    return d


def _case_flip(b, rng):
    out = bytearray(b)
    for i, c in enumerate(out):
        if (65 <= c <= 90 or 97 <= c <= 122) and rng.random() < 0.5:
            out[i] = c ^ 0x20
    return bytes(out)


NEIGH = [b"", b"a", b"Z", b"0", b".", b" ", b"\x00", b"a\x00", b"\x00a", b".\x00", b"\xff", b"9\x00", b"_"]


def gen_buffer(rng, decls, maxlen=600):
    """Buffer built around the declarations: planted variants, near-misses, neighbours."""
    parts = []
    filler_alpha = list(decls[0].text) + [0x20, 0x2e, 0x00]
    style = rng.random()

    def filler(n):
        if style < 0.4:
            return bytes(rng.choice(filler_alpha) for _ in range(n))
        if style < 0.7:
            return bytes(rng.choice(POOL) for _ in range(n))
        return bytes(rng.randrange(256) for _ in range(n))

    nplant = rng.randint(0, 7)
    nearmiss = 0
    total = 0
    for _ in range(nplant):
        d = rng.choice(decls)
        vs = d.variants()
        if not vs:
            continue
        pat, key, kind = rng.choice(vs)
        if d.xor is not None and rng.random() < 0.25:
            # a key just outside the range: must not match (unless it coincides with another variant)
            lo, hi = d.xor
            k2 = rng.choice([(lo - 1) % 256, (hi + 1) % 256])
            base = widen(d.text) if kind == "w" else d.text
            pat = bytes(c ^ k2 for c in base)
        if d.nocase:
            pat = _case_flip(pat, rng)
        r = rng.random()
        if r < 0.3 and len(pat) > 0:
            # near miss: one byte changed
            p = bytearray(pat)
            j = rng.randrange(len(p))
            p[j] = (p[j] + rng.choice([1, 0x20, 0x80, 255])) % 256
            pat = bytes(p)
            nearmiss += 1
        elif r < 0.4 and len(pat) > 1:
            pat = pat[:-1] if rng.random() < 0.5 else pat[1:]
            nearmiss += 1
        pre = rng.choice(NEIGH) if rng.random() < 0.7 else b""
        post = rng.choice(NEIGH) if rng.random() < 0.7 else b""
        if rng.random() < 0.25 and parts:
            # overlap with previous part: drop separator
            parts.append(pat)
        else:
            parts.append(filler(rng.choice([0, 0, 1, 2, 5, 17])) + pre + pat + post)
        total += len(parts[-1])
        if total > maxlen:
            break
    if rng.random() < 0.5:
        parts.append(filler(rng.randint(0, 60)))
    if rng.random() < 0.3:
        parts.insert(0, filler(rng.randint(1, 30)))
    buf = b"".join(parts)
    return buf[:maxlen], nearmiss
