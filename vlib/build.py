"""Build /repo's current working tree into /verif/build/<variant>/ (never into /repo).

Mirrors Makefile.am: same source list, same -D defines (taken from /repo/Makefile),
plus -DMACHO_MODULE -DDEX_MODULE and -DYARA_VERIF (hooks on).  Per-object caching
is by content digest of the source, every header it included (gcc -MD) and the flags.
Exit code 2 (BuildError) on any failure: a harness failure, never a verdict.
"""
import concurrent.futures as cf
import hashlib
import os
import re
import shlex
import shutil
import subprocess
import sys
import tempfile

REPO = os.environ.get("VERIF_REPO", "/repo")
VERIF = os.path.dirname(os.path.dirname(os.path.abspath(__file__)))
BUILD = os.environ.get("VERIF_BUILD") or os.path.join(VERIF, "build")
GUARD = "YARA_VERIF"

ENABLED_CONDS = {
    "HASH_MODULE", "DOTNET_MODULE", "MACHO_MODULE", "DEX_MODULE",
    "AUTHENTICODE_MODULE", "USE_LINUX_PROC", "GCC",
}

SAN_UB = ("bounds,null,nonnull-attribute,returns-nonnull-attribute,"
          "integer-divide-by-zero,object-size,vla-bound,"
          "unreachable,return,bool,enum,builtin,shift-exponent")
SAN_UB_CLANG = ("bounds,null,nonnull-attribute,returns-nonnull-attribute,"
                "integer-divide-by-zero,vla-bound,"
                "unreachable,return,bool,enum,builtin,shift-exponent")

VARIANTS = {
    "asan": dict(cc="gcc", cflags=["-O1", "-g", "-fno-omit-frame-pointer",
                                   "-fsanitize=address", "-fsanitize=" + SAN_UB,
                                   "-fno-sanitize-recover=all"],
                 ldflags=["-fsanitize=address", "-fsanitize=" + SAN_UB]),
    "tsan": dict(cc="gcc", cflags=["-O1", "-g", "-fno-omit-frame-pointer", "-fsanitize=thread"],
                 ldflags=["-fsanitize=thread"]),
    "plain": dict(cc="gcc", cflags=["-O2", "-g"], ldflags=[]),
    "fuzz": dict(cc="clang-14", cflags=["-O1", "-g", "-fno-omit-frame-pointer",
                                        "-fsanitize=fuzzer-no-link,address",
                                        "-fsanitize=" + SAN_UB_CLANG,
                                        "-fno-sanitize-recover=all"],
                 ldflags=["-fsanitize=fuzzer,address", "-fsanitize=" + SAN_UB_CLANG]),
}


class BuildError(Exception):
    pass


def _run(cmd, cwd=None, quiet=True):
    p = subprocess.run(cmd, cwd=cwd, stdout=subprocess.PIPE, stderr=subprocess.STDOUT)
    if p.returncode != 0:
        raise BuildError("command failed: %s\n%s" % (" ".join(cmd), p.stdout.decode("utf8", "replace")[-4000:]))
    return p.stdout


def repo_defs():
    """DEFS from /repo/Makefile (configure output)."""
    mk = os.path.join(REPO, "Makefile")
    defs = None
    cflags = None
    with open(mk, encoding="utf8", errors="replace") as f:
        for line in f:
            if line.startswith("DEFS = "):
                defs = line[len("DEFS = "):].strip()
            elif line.startswith("CFLAGS = "):
                cflags = line[len("CFLAGS = "):].strip()
    if defs is None:
        raise BuildError("no DEFS in %s" % mk)
    out = shlex.split(defs)
    for t in shlex.split(cflags or ""):
        if t.startswith("-D"):
            out.append(t)
    return out


def source_list():
    """libyara_la_SOURCES (+MODULES) from Makefile.am with our conditionals."""
    am = os.path.join(REPO, "Makefile.am")
    srcs = []
    stack = []
    collecting = None
    with open(am, encoding="utf8") as f:
        lines = f.read().replace("\\\n", " ").split("\n")
    for line in lines:
        s = line.strip()
        m = re.match(r"if\s+(\w+)", s)
        if m:
            stack.append(m.group(1) in ENABLED_CONDS)
            continue
        if s == "endif":
            if stack:
                stack.pop()
            continue
        if s == "else":
            if stack:
                stack[-1] = not stack[-1]
            continue
        if not all(stack):
            continue
        m = re.match(r"(MODULES|libyara_la_SOURCES)\s*\+?=\s*(.*)", s)
        if m:
            for tok in m.group(2).split():
                if tok.startswith("libyara/") and re.search(r"\.(c|y|l)$", tok):
                    srcs.append(tok)
    seen = set()
    out = []
    for s in srcs:
        if s not in seen:
            seen.add(s)
            out.append(s)
    if len(out) < 40:
        raise BuildError("source list from Makefile.am looks wrong: %d entries" % len(out))
    return out


def _strip_lines(b):
    return b"\n".join(l for l in b.split(b"\n") if not l.startswith(b"#line"))


def _generated(src_rel, gendir):
    """Return path of the C file to compile for a .y/.l source, following make's rule:
    the tracked .c is used unless the .y/.l is newer AND regenerating gives different code."""
    base = src_rel[:-2]
    repo_src = os.path.join(REPO, src_rel)
    repo_c = os.path.join(REPO, base + ".c")
    name = os.path.basename(base)
    out_c = os.path.join(gendir, name + ".c")
    out_h = os.path.join(gendir, name + ".h")
    tmp = tempfile.mkdtemp(prefix="vfgen", dir=gendir)
    try:
        ylwrap = os.path.join(REPO, "build-aux", "ylwrap")
        if src_rel.endswith(".y"):
            cmd = ["sh", ylwrap, repo_src, "y.tab.c", os.path.join(tmp, name + ".c"),
                   "y.tab.h", os.path.join(tmp, name + ".h"),
                   "y.output", os.path.join(tmp, name + ".output"), "--", "bison", "-y", "-d", "-Wno-yacc"]
        else:
            cmd = ["sh", ylwrap, repo_src, "lex.yy.c", os.path.join(tmp, name + ".c"), "--", "flex"]
        _run(cmd, cwd=tmp)
        new_c = open(os.path.join(tmp, name + ".c"), "rb").read()
        old_c = open(repo_c, "rb").read() if os.path.exists(repo_c) else None
        same = old_c is not None and _strip_lines(new_c) == _strip_lines(old_c)
        use_new = False
        if old_c is None:
            use_new = True
        elif not same:
            # make's rule: regenerate iff the grammar is strictly newer than the generated file
            use_new = os.stat(repo_src).st_mtime_ns > os.stat(repo_c).st_mtime_ns
        if use_new:
            _write_if_changed(out_c, new_c)
            hp = os.path.join(tmp, name + ".h")
            if os.path.exists(hp):
                _write_if_changed(out_h, open(hp, "rb").read())
            return out_c, True
        else:
            for p in (out_c, out_h):
                if os.path.exists(p):
                    os.unlink(p)
            return repo_c, False
    finally:
        shutil.rmtree(tmp, ignore_errors=True)


def _write_if_changed(path, data):
    if os.path.exists(path) and open(path, "rb").read() == data:
        return
    with open(path, "wb") as f:
        f.write(data)


def _digest_files(paths, extra):
    h = hashlib.sha256()
    h.update(extra.encode())
    for p in paths:
        try:
            with open(p, "rb") as f:
                h.update(p.encode() + b"\0")
                h.update(f.read())
        except OSError:
            return None
    return h.hexdigest()


def _parse_dep(dfile):
    try:
        txt = open(dfile).read()
    except OSError:
        return None
    txt = txt.replace("\\\n", " ")
    deps = []
    for line in txt.split("\n"):
        if ":" in line:
            rhs = line.split(":", 1)[1]
            deps.extend(rhs.split())
        # -MP phony lines have empty rhs
    return sorted(set(deps))


def _compile_one(cc, flags, src, obj):
    dfile = obj[:-2] + ".d"
    stamp = obj[:-2] + ".stamp"
    flagstr = cc + " " + " ".join(flags)
    deps = _parse_dep(dfile)
    if deps is not None and os.path.exists(obj) and os.path.exists(stamp):
        dg = _digest_files(deps, flagstr)
        if dg is not None and open(stamp).read() == dg:
            return False
    os.makedirs(os.path.dirname(obj), exist_ok=True)
    cmd = [cc] + flags + ["-MD", "-MF", dfile, "-c", src, "-o", obj]
    _run(cmd)
    deps = _parse_dep(dfile) or [src]
    dg = _digest_files(deps, flagstr)
    with open(stamp, "w") as f:
        f.write(dg or "")
    return True


def common_cflags(gendir, hooks=True):
    fl = repo_defs()
    fl += ["-Wall", "-Wno-unused", "-w", "-D_GNU_SOURCE", "-DMACHO_MODULE", "-DDEX_MODULE"]
    if hooks:
        fl.append("-D" + GUARD)
    # gendir first so that a regenerated grammar.h shadows the tracked one
    fl += ["-I" + gendir, "-I" + os.path.join(REPO, "libyara", "include"),
           "-I" + os.path.join(REPO, "libyara"), "-I" + REPO,
           "-I" + os.path.join(REPO, "libyara", "modules", "pe")]
    return fl


def _build_lib_locked(variant, hooks=True, jobs=16):
    """Compile libyara + cli objects for a variant; returns dict with paths."""
    if variant not in VARIANTS:
        raise BuildError("unknown variant " + variant)
    v = VARIANTS[variant]
    root = os.path.join(BUILD, variant if hooks else variant + "-nohooks")
    objdir = os.path.join(root, "obj")
    gendir = os.path.join(root, "gen")
    os.makedirs(objdir, exist_ok=True)
    os.makedirs(gendir, exist_ok=True)
    flags = v["cflags"] + common_cflags(gendir, hooks)
    jobs_list = []
    for s in source_list():
        if s.endswith((".y", ".l")):
            csrc, _ = _generated(s, gendir)
            obj = os.path.join(objdir, s[:-2].replace("/", "_") + ".o")
        else:
            csrc = os.path.join(REPO, s)
            obj = os.path.join(objdir, s[:-2].replace("/", "_") + ".o")
        if not os.path.exists(csrc):
            raise BuildError("missing source " + csrc)
        jobs_list.append((csrc, obj))
    cli = ["cli/args.c", "cli/common.c", "cli/threading.c", "cli/yara.c", "cli/yarac.c"]
    cli_objs = {}
    for s in cli:
        obj = os.path.join(objdir, s[:-2].replace("/", "_") + ".o")
        cli_objs[s] = obj
        jobs_list.append((os.path.join(REPO, s), obj))
    rebuilt = 0
    with cf.ThreadPoolExecutor(jobs) as ex:
        futs = [ex.submit(_compile_one, v["cc"], flags, s, o) for s, o in jobs_list]
        for f in futs:
            if f.result():
                rebuilt += 1
    lib = os.path.join(root, "libyara.a")
    lib_objs = [o for s, o in jobs_list if not s.startswith(os.path.join(REPO, "cli"))]
    if rebuilt or not os.path.exists(lib):
        if os.path.exists(lib):
            os.unlink(lib)
        _run(["ar", "rcs", lib] + lib_objs)
    info = dict(root=root, lib=lib, cc=v["cc"], cflags=flags, ldflags=v["ldflags"],
                cli_objs=cli_objs, rebuilt=rebuilt, objdir=objdir)
    # CLI binaries
    ld = ["-lcrypto", "-lm", "-lpthread"]
    cliflags = v["ldflags"] if variant != "fuzz" else ["-fsanitize=address", "-fsanitize=" + SAN_UB_CLANG]
    for exe, parts in (("yara", ["cli/args.c", "cli/common.c", "cli/threading.c", "cli/yara.c"]),
                       ("yarac", ["cli/args.c", "cli/common.c", "cli/yarac.c"])):
        out = os.path.join(root, exe)
        if rebuilt or not os.path.exists(out) or os.stat(out).st_mtime_ns < os.stat(lib).st_mtime_ns:
            _run([v["cc"]] + cliflags + [cli_objs[p] for p in parts] + [lib] + ld + ["-o", out])
    return info


def _build_harness_locked(variant, name, sources, extra_cflags=(), extra_ldflags=(), hooks=True):
    """Compile a harness program from /verif/harness against the variant's libyara.a."""
    info = build_lib(variant, hooks=hooks)
    v = VARIANTS[variant]
    root = info["root"]
    objs = []
    rebuilt = info["rebuilt"]
    for s in sources:
        src = os.path.join(VERIF, "harness", s)
        obj = os.path.join(root, "hobj", name + "_" + s.replace("/", "_")[:-2] + ".o")
        if _compile_one(v["cc"], info["cflags"] + list(extra_cflags), src, obj):
            rebuilt += 1
        objs.append(obj)
    out = os.path.join(root, name)
    ldstamp = out + ".ldstamp"
    ldkey = " ".join(list(extra_ldflags))
    newest = max(os.stat(x).st_mtime_ns for x in objs + [info["lib"]])
    if (rebuilt or not os.path.exists(out) or not os.path.exists(ldstamp) or open(ldstamp).read() != ldkey
            or os.stat(out).st_mtime_ns < newest):
        _run([v["cc"]] + v["ldflags"] + objs + [info["lib"]] + ["-lcrypto", "-lm", "-lpthread"]
             + list(extra_ldflags) + ["-o", out])
        open(ldstamp, "w").write(ldkey)
    info["exe"] = out
    return info


def main(argv):
    import time
    t = time.time()
    try:
        for v in argv or ["asan"]:
            info = build_lib(v)
            print("built %s: %d objects recompiled -> %s (%.1fs)" % (v, info["rebuilt"], info["root"], time.time() - t))
    except BuildError as e:
        sys.stderr.write("BUILD FAILURE: %s\n" % e)
        return 2
    return 0


if __name__ == "__main__":
    sys.exit(main(sys.argv[1:]))


class _VariantLock:
    """serialise builders of one variant across processes (two checks started together must not compile into the same
    object files at once); re-entrant within a process"""
    depth = {}

    def __init__(self, variant):
        self.variant = variant

    def __enter__(self):
        import fcntl
        d = _VariantLock.depth
        if d.get(self.variant, (0, None))[0] == 0:
            os.makedirs(BUILD, exist_ok=True)
            fh = open(os.path.join(BUILD, ".lock_" + self.variant), "w")
            fcntl.flock(fh, fcntl.LOCK_EX)
            d[self.variant] = (1, fh)
        else:
            n, fh = d[self.variant]
            d[self.variant] = (n + 1, fh)

    def __exit__(self, *a):
        import fcntl
        n, fh = _VariantLock.depth[self.variant]
        if n == 1:
            fcntl.flock(fh, fcntl.LOCK_UN)
            fh.close()
            _VariantLock.depth[self.variant] = (0, None)
        else:
            _VariantLock.depth[self.variant] = (n - 1, fh)


def build_lib(variant, hooks=True, jobs=16):
    with _VariantLock(variant):
        return _build_lib_locked(variant, hooks, jobs)


def build_harness(variant, name, sources, extra_cflags=(), extra_ldflags=(), hooks=True):
    with _VariantLock(variant):
        return _build_harness_locked(variant, name, sources, extra_cflags, extra_ldflags, hooks)
