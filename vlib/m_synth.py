"""Synthetic executables for C06: well-formed files whose *counts* are pushed far beyond what the sample files in
tests/data contain (version-info strings, sections, imports, exports, resources, ELF sections and symbols), so that the
growth paths of the module object tree (array and dictionary reallocation in object.c) and the per-table iteration caps
are exercised.  The structure-aware sweep and libFuzzer then mutate these files like any other seed."""
import struct


def _w(s):
    return s.encode("utf-16le") + b"\0\0"


def _align(b, n=4):
    return b + b"\0" * (-len(b) % n)


def _vs_block(key, value_bytes, value_len, typ, children=b""):
    """VS_VERSIONINFO-style block: wLength, wValueLength, wType, szKey, padding, value, padding, children"""
    body = _align(struct.pack("<HHH", 0, value_len, typ) + _w(key))
    body = _align(body + value_bytes) + children
    return struct.pack("<H", len(body)) + body[2:]


def version_resource(nstrings, keylen=6):
    strings = b""
    for i in range(nstrings):
        key = ("K%0*d" % (keylen - 1, i))[:60]
        val = "v%d" % i
        strings += _align(_vs_block(key, _w(val), len(val) + 1, 1))
    table = _vs_block("040904B0", b"", 0, 1, strings)
    sfi = _vs_block("StringFileInfo", b"", 0, 1, _align(table))
    fixed = struct.pack("<13I", 0xFEEF04BD, 0x10000, 1, 0, 1, 0, 0x3F, 0, 4, 1, 0, 0, 0)
    return _vs_block("VS_VERSION_INFO", fixed, len(fixed), 0, _align(sfi))


def pe(nversion=0, nsections=1, imports=(0, 0), nexports=0, nresources=0, pe64=False):
    """A PE image with a .rdata-like section holding imports/exports/resources, plus (nsections-1) filler sections."""
    file_align = 0x200
    sect_align = 0x1000
    opt_size = 240 if pe64 else 224
    nsec = max(1, nsections)
    hdr_size = 0x80 + 24 + opt_size + 40 * nsec
    hdr_size = (hdr_size + file_align - 1) & ~(file_align - 1)
    rva0 = 0x1000
    blob = bytearray()

    def here():
        return rva0 + len(blob)

    def put(b, align=4):
        while len(blob) % align:
            blob.append(0)
        off = here()
        blob.extend(b)
        return off

    dirs = [(0, 0)] * 16
    # --- imports
    ndll, nfun = imports
    if ndll:
        psz = 8 if pe64 else 4
        desc_rva = put(b"\0" * (20 * (ndll + 1)))
        descs = b""
        for d in range(ndll):
            names = [put(struct.pack("<H", f) + ("Func%d_%d" % (d, f)).encode() + b"\0", 2) for f in range(nfun)]
            thunks = b"".join(struct.pack("<Q" if pe64 else "<I", n) for n in names) + b"\0" * psz
            if nfun > 2:
                # a few imports by ordinal
                thunks = struct.pack("<Q" if pe64 else "<I", (1 << (63 if pe64 else 31)) | (d + 1)) + thunks
            oft = put(thunks, psz)
            ft = put(thunks, psz)
            nm = put(("lib%d.dll" % d).encode() + b"\0")
            descs += struct.pack("<IIIII", oft, 0, 0, nm, ft)
        blob[desc_rva - rva0:desc_rva - rva0 + len(descs)] = descs
        dirs[1] = (desc_rva, 20 * (ndll + 1))
    # --- exports
    if nexports:
        dn = put(b"synth.dll\0")
        names = [put(("Exp%d" % i).encode() + b"\0") for i in range(nexports)]
        fn = put(b"".join(struct.pack("<I", 0x1000 + 16 * i) for i in range(nexports)))
        nt = put(b"".join(struct.pack("<I", n) for n in names))
        ot = put(b"".join(struct.pack("<H", i) for i in range(nexports)), 2)
        exp = put(struct.pack("<IIHHIIIIIII", 0, 0, 0, 0, dn, 1, nexports, nexports, fn, nt, ot))
        dirs[0] = (exp, 40)
    # --- resources: type 16 (version) with one entry, type 10 (rcdata) with nresources entries
    if nversion or nresources:
        ver = version_resource(nversion) if nversion else b""
        types = []
        if nversion:
            types.append((16, [(1, ver)]))
        if nresources:
            types.append((10, [(100 + i, b"RES%04d" % i) for i in range(nresources)]))
        # layout: root dir | per-type dir | per-name dir (lang) | data entries | data
        root_rva = put(b"", 4)
        sizes = 16 + 8 * len(types)
        for _t, items in types:
            sizes += 16 + 8 * len(items)            # name level
            sizes += (16 + 8) * len(items)          # language level
            sizes += 16 * len(items)                # data entries
        base = len(blob)
        blob.extend(b"\0" * sizes)
        datas = []
        for _t, items in types:
            for _n, payload in items:
                datas.append(put(payload, 4))
        off = 16 + 8 * len(types)
        root = struct.pack("<IIHHHH", 0, 0, 0, 0, 0, len(types))
        entries = b""
        bodies = b""
        di = 0
        for t, items in types:
            entries += struct.pack("<II", t, 0x80000000 | (off + len(bodies)))
            name_dir = struct.pack("<IIHHHH", 0, 0, 0, 0, 0, len(items))
            lang_off = off + len(bodies) + 16 + 8 * len(items)
            langs = b""
            dents = b""
            dent_off = lang_off + 24 * len(items)
            for k, (n, payload) in enumerate(items):
                name_dir += struct.pack("<II", n, 0x80000000 | (lang_off + 24 * k))
                langs += struct.pack("<IIHHHH", 0, 0, 0, 0, 0, 1) + struct.pack("<II", 0x409, dent_off + 16 * k)
                dents += struct.pack("<IIII", datas[di], len(payload), 0, 0)
                di += 1
            bodies += name_dir + langs + dents
        tree = root + entries + bodies
        blob[base:base + len(tree)] = tree
        dirs[2] = (root_rva, sizes)
    if not blob:
        blob.extend(b"\xc3" * 16)
    raw = bytes(blob) + b"\0" * (-len(blob) % file_align)
    # --- headers
    mz = bytearray(0x80)
    mz[0:2] = b"MZ"
    struct.pack_into("<I", mz, 0x3c, 0x80)
    sections = []
    vsize = (len(blob) + sect_align - 1) & ~(sect_align - 1)
    sections.append((b".rdata\0\0", len(blob), rva0, len(raw), hdr_size, 0x40000040))
    next_rva = rva0 + vsize
    next_raw = hdr_size + len(raw)
    filler = b""
    for i in range(1, nsec):
        sections.append((b"S%06d\0" % i, 0x10, next_rva, file_align if i % 3 == 0 else 0, next_raw if i % 3 == 0 else 0, 0x60000020))
        if i % 3 == 0:
            filler += bytes([i & 0xFF]) * file_align
            next_raw += file_align
        next_rva += sect_align
    coff = struct.pack("<IHHIIIHH", 0x4550, 0x8664 if pe64 else 0x14c, nsec, 0x5F000000, 0, 0, opt_size, 0x2022 if pe64 else 0x2102)
    if pe64:
        opt = struct.pack("<HBBIIIIIQIIHHHHHHIIIIHHQQQQII", 0x20b, 14, 0, 0x200, len(raw), 0, rva0, rva0, 0x140000000, sect_align,
                          file_align, 6, 0, 0, 0, 6, 0, 0, next_rva, hdr_size, 0, 3, 0x8160, 0x100000, 0x1000, 0x100000, 0x1000, 0, 16)
    else:
        opt = struct.pack("<HBBIIIIIIIIIHHHHHHIIIIHHIIIIII", 0x10b, 14, 0, 0x200, len(raw), 0, rva0, rva0, rva0, 0x400000, sect_align,
                          file_align, 6, 0, 0, 0, 6, 0, 0, next_rva, hdr_size, 0, 3, 0x8140, 0x100000, 0x1000, 0x100000, 0x1000, 0, 16)
    opt += b"".join(struct.pack("<II", a, b) for a, b in dirs)
    assert len(opt) == opt_size, (len(opt), opt_size)
    sect = b"".join(struct.pack("<8sIIIIIIHHI", n, vs, va, rs, ro, 0, 0, 0, 0, ch) for n, vs, va, rs, ro, ch in sections)
    hdr = bytes(mz) + coff + opt + sect
    hdr += b"\0" * (hdr_size - len(hdr))
    return hdr + raw + filler


def elf64(nsections=4, nsyms=8, ndynsyms=0):
    """ELF64 LE with a string table, a symbol table (and optionally a dynamic symbol table) and filler sections."""
    names = [b"", b".shstrtab", b".strtab", b".symtab"] + ([b".dynsym"] if ndynsyms else []) + [b".s%d" % i for i in range(nsections)]
    shstr = b"\0".join(names) + b"\0"
    name_off = {}
    o = 0
    for n in names:
        name_off[n] = o
        o += len(n) + 1
    symnames = b"\0" + b"".join(b"sym%d\0" % i for i in range(max(nsyms, ndynsyms)))
    soff = [0]
    o = 1
    for i in range(max(nsyms, ndynsyms)):
        soff.append(o)
        o += len(b"sym%d\0" % i)

    def symtab(n):
        return b"".join(struct.pack("<IBBHQQ", soff[min(i, len(soff) - 1)] if i else 0, 0x12 if i % 2 else 0x11, 0, 1 + i % 3, 0x1000 + 8 * i, 8)
                        for i in range(n + 1))
    body = bytearray(b"\0" * 64)

    def put(b, align=8):
        while len(body) % align:
            body.append(0)
        off = len(body)
        body.extend(b)
        return off
    o_shstr = put(shstr, 1)
    o_str = put(symnames, 1)
    sym = symtab(nsyms)
    o_sym = put(sym)
    sh = [struct.pack("<IIQQQQIIQQ", 0, 0, 0, 0, 0, 0, 0, 0, 0, 0),
          struct.pack("<IIQQQQIIQQ", name_off[b".shstrtab"], 3, 0, 0, o_shstr, len(shstr), 0, 0, 1, 0),
          struct.pack("<IIQQQQIIQQ", name_off[b".strtab"], 3, 0, 0, o_str, len(symnames), 0, 0, 1, 0),
          struct.pack("<IIQQQQIIQQ", name_off[b".symtab"], 2, 0, 0, o_sym, len(sym), 2, 1, 8, 24)]
    if ndynsyms:
        dsym = symtab(ndynsyms)
        o_dsym = put(dsym)
        sh.append(struct.pack("<IIQQQQIIQQ", name_off[b".dynsym"], 11, 2, 0x2000, o_dsym, len(dsym), 2, 1, 8, 24))
    for i in range(nsections):
        o_f = put(bytes([i & 0xFF]) * 8)
        sh.append(struct.pack("<IIQQQQIIQQ", name_off[b".s%d" % i], 1, 6, 0x400000 + 16 * i, o_f, 8, 0, 0, 8, 0))
    o_ph = put(struct.pack("<IIQQQQQQ", 1, 5, 0, 0x400000, 0x400000, len(body), len(body), 0x1000))
    o_sh = put(b"".join(sh))
    shnum = len(sh)
    ehdr = b"\x7fELF" + bytes([2, 1, 1, 0]) + b"\0" * 8 + struct.pack("<HHIQQQIHHHHHH", 2, 62, 1, 0x400000, o_ph, o_sh, 0, 64, 56, 1, 64,
                                                                           shnum if shnum < 0xff00 else 0, 1)
    body[0:64] = ehdr
    return bytes(body)


def all_synthetic(tier):
    """(name, bytes) list; sizes chosen around the growth thresholds of object.c (64 initial slots, doubling)"""
    out = []
    for n in (1, 63, 64, 65, 129, 130, 300):
        out.append(("pe32_version%d" % n, pe(nversion=n)))
    out.append(("pe64_version200", pe(nversion=200, pe64=True)))
    for n in (2, 60, 96, 97, 120):
        out.append(("pe32_sections%d" % n, pe(nsections=n)))
    out.append(("pe32_imports_20x40", pe(imports=(20, 40))))
    out.append(("pe64_imports_70x3", pe(imports=(70, 3), pe64=True)))
    out.append(("pe32_exports_700", pe(nexports=700)))
    out.append(("pe32_resources_300", pe(nresources=300, nversion=3)))
    out.append(("pe32_everything", pe(nversion=70, nsections=12, imports=(5, 9), nexports=80, nresources=40)))
    for ns, ny, nd in ((4, 8, 0), (100, 300, 0), (20, 70, 140), (300, 1200, 600)):
        out.append(("elf64_s%d_y%d_d%d" % (ns, ny, nd), elf64(ns, ny, nd)))
    if tier == "thorough":
        out.append(("pe32_version2000", pe(nversion=2000)))
        out.append(("pe32_imports_200x50", pe(imports=(200, 50))))
        out.append(("elf64_big", elf64(2000, 20000, 5000)))
    return out
