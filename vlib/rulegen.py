"""Random rule pools for the differential checks (C05, C08, C10, C12, C13, C19).
No reference semantics here: rules only have to be deterministic and diverse, and their
strings are drawn from a shared vocabulary so that atoms, prefixes and suffixes collide."""
import random

from . import m_cond, m_hex, m_re, m_text


def make_vocab(rng, n=12):
    alpha = rng.choice([b"abcd", b"abAB01", bytes(range(0x61, 0x67)), b"\x00\x01\x90\xccMZ", b"abcdefghijklmnop"])
    words = []
    for _ in range(n):
        words.append(bytes(rng.choice(alpha) for _ in range(rng.randint(3, 9))))
    # derived words: shared prefixes / suffixes / sub-words
    for _ in range(n):
        w = rng.choice(words)
        r = rng.random()
        if r < 0.3 and len(w) > 4:
            words.append(w[:rng.randint(3, len(w) - 1)])
        elif r < 0.6 and len(w) > 4:
            words.append(w[rng.randint(1, len(w) - 3):])
        elif r < 0.8:
            words.append(w + rng.choice(words)[:3])
        else:
            words.append(rng.choice(words)[-3:] + w)
    return [w for w in words if w]


class StringSpec:
    __slots__ = ("ident", "text", "kind", "sample")

    def __init__(self, ident, text, kind, sample):
        self.ident = ident
        self.text = text      # declaration after '$id = '
        self.kind = kind
        self.sample = sample  # fn(rng) -> bytes that (usually) match


def gen_string(rng, vocab, ident):
    r = rng.random()
    if r < 0.5:
        w = rng.choice(vocab)
        d = m_text.TextDecl(w)
        k = rng.random()
        if k < 0.2:
            d.nocase = True
        elif k < 0.35:
            d.wide = True
            d.ascii = rng.random() < 0.5
        elif k < 0.45:
            d.xor = rng.choice([(0, 255), (1, 3), (0x20, 0x20)])
        elif k < 0.52:
            d.b64 = True
        if d.xor is None and not d.b64 and rng.random() < 0.15:
            d.fullword = True
        text = d.render("$x", rng).split(" = ", 1)[1]
        vs = d.variants()

        def sample(rr, vs=vs, w=w):
            return rr.choice(vs)[0] if vs else w
        return StringSpec(ident, text, "text", sample)
    if r < 0.78:
        # hex string built from vocabulary words with wildcards / jumps
        parts = []
        nw = rng.randint(1, 3)
        for i in range(nw):
            w = rng.choice(vocab)
            for c in w:
                if rng.random() < 0.1:
                    parts.append(("b", 0, 0, False))
                elif rng.random() < 0.05:
                    parts.append(("b", c & 0xF0, 0xF0, False))
                else:
                    parts.append(("b", c, 0xFF, False))
            if i < nw - 1:
                lo, hi = rng.choice([(0, 2), (1, 1), (2, 6), (0, 210), (201, 201), (1, None)])
                parts.append(("j", lo, hi))
        if parts[0][0] == "j":
            parts = parts[1:]
        if parts[-1][0] == "j":
            parts = parts[:-1]
        if rng.random() < 0.2 and len(parts) > 3:
            k = rng.randrange(1, len(parts) - 1)
            if parts[k][0] == "b":
                alt = ("a", [[parts[k]], [("b", (parts[k][1] + 1) & 0xFF, 0xFF, False), ("b", 0x41, 0xFF, False)]])
                parts[k] = alt
        text = "{ " + m_hex.render(parts, rng) + " }"
        alpha = list(b"".join(vocab))

        def sample(rr, parts=parts, alpha=alpha):
            return m_hex.sample(rr, parts, alpha)
        return StringSpec(ident, text, "hex", sample)
    # regex with vocabulary literals
    w = rng.choice(vocab)
    w2 = rng.choice(vocab)
    forms = [
        lambda: ("cat", [m_re.lit(c) for c in w] + [("rep", ("set", m_re.DIGIT, False, "[0-9]"), 1, 3, "nm")]),
        lambda: ("cat", [m_re.lit(c) for c in w[:3]] + [("rep", ("dot",), 0, 4, "nm")] + [m_re.lit(c) for c in w2[:3]]),
        lambda: ("cat", [("grp", ("alt", [("cat", [m_re.lit(c) for c in w]), ("cat", [m_re.lit(c) for c in w2])]))] +
                 [m_re.lit(0x21)]),
        lambda: ("cat", [m_re.lit(c) for c in w] + [("rep", m_re.lit(w2[0]), 1, None, "+")]),
        # no literal atom at all: hangs off the automaton's root state
        lambda: ("cat", [("rep", ("set", m_re.DIGIT, False, "[0-9]"), 3, 3, "n")]),
        lambda: ("cat", [("set", frozenset(w), False, "[" + "".join(m_re.cls_lit_src(c) for c in sorted(set(w))) + "]"),
                         ("set", frozenset(w2), False, "[" + "".join(m_re.cls_lit_src(c) for c in sorted(set(w2))) + "]"),
                         ("rep", ("set", m_re.DIGIT, False, "\\d"), 1, 2, "nm")]),
    ]
    ast = rng.choice(forms)()
    src = m_re.render(ast, False)
    mods = rng.choice(["", "", " nocase", " wide", " ascii wide", " fullword"])
    flags = rng.choice(["", "", "i", "s"])
    alpha = list(w + w2 + b"0123")

    def sample(rr, ast=ast, alpha=alpha, wide=("wide" in mods and "ascii" not in mods)):
        s = m_re.sample(rr, ast, alpha)
        return m_text.widen(s) if wide else s
    return StringSpec(ident, "/%s/%s%s" % (src, flags, mods), "regex", sample)


COND_FAMILY = [
    "any of them", "all of them", "{n} of them", "#{s} > {k}", "${s} at {k}", "${s} in ({k}..{k2})", "@{s}[1] < {k2}",
    "for any of them : (# > {k})", "for all of them : ($ in (0..{k2}))", "filesize > {k2}", "filesize < {k2} and ${s}",
    "uint8(0) == {b} or ${s}", "#{s} == {k} or !{s}[1] == {k}", "none of them", "${s} and not ${s2}",
    "for any i in (1..#{s}) : (@{s}[i] % 2 == 0)", "{n}% of them", "any of them in (0..{k2})", "@{s} > {k} and @{s2} < {k2}",
    "for {n} of them : (@ > {k})", "not defined @{s}[{k}]", "#{s} in (0..{k2}) >= 1",
]


class RuleSpec:
    __slots__ = ("name", "ns", "flags", "tags", "metas", "strings", "cond", "refs", "text", "uses_ext", "imports")


def gen_rule(rng, vocab, name, ns, earlier, ext_names=(), allow_flags=True, modules=()):
    r = RuleSpec()
    r.name = name
    r.ns = ns
    r.flags = ""
    if allow_flags:
        k = rng.random()
        if k < 0.08:
            r.flags = "private "
        elif k < 0.11:
            r.flags = "global "
    r.tags = rng.sample(["t1", "t2", "mal", "x86"], rng.choice([0, 0, 0, 1, 2]))
    r.metas = []
    for i in range(rng.choice([0, 0, 1, 3])):
        k = rng.random()
        if k < 0.4:
            r.metas.append("m%d = \"%s\"" % (i, rng.choice(["v", "hello world", "", "a\\\\b"])))
        elif k < 0.8:
            r.metas.append("m%d = %d" % (i, rng.choice([0, 1, -5, 1 << 40])))
        else:
            r.metas.append("m%d = %s" % (i, rng.choice(["true", "false"])))
    ns_ = rng.choice([0, 1, 1, 2, 2, 3, 5])
    r.strings = [gen_string(rng, vocab, "_s%d" % i) for i in range(ns_)]
    ids = [s.ident for s in r.strings]
    r.refs = []
    r.uses_ext = []
    parts = []
    if ids:
        k = rng.random()
        if k < 0.6:
            f = rng.choice(COND_FAMILY)
            parts.append(f.format(n=rng.randint(1, len(ids)) if "%" not in f else rng.choice([1, 50, 100]),
                                  s=rng.choice(ids), s2=rng.choice(ids), k=rng.choice([0, 1, 2, 3, 10]),
                                  k2=rng.choice([10, 50, 500, 5000]), b=rng.choice([0x4d, 0x61, 0, 0x7f])))
        else:
            g = m_cond.Gen(rng, ids, {}, [], 100)
            for _ in range(10):
                c = g.bool_expr(rng.randint(1, 3))
                if not m_cond.has_const_problem(c):
                    break
            parts.append("(" + m_cond.render(c) + ")")
    else:
        parts.append(rng.choice(["true", "false", "filesize > 10", "filesize < 100", "uint16(0) == 0x5a4d",
                                 "filesize == 0 or uint8(filesize - 1) != 0"]))
    if earlier and rng.random() < 0.25:
        ref = rng.choice(earlier)
        r.refs.append(ref)
        parts.append(rng.choice(["and %s", "or %s", "and not %s"]) % ref)
    if ext_names and rng.random() < 0.3:
        e, kind = rng.choice(ext_names)
        r.uses_ext.append(e)
        if kind == "i":
            parts.append(rng.choice(["and %s > 2", "or %s == 7", "and filesize > %s"]) % e)
        elif kind == "s":
            parts.append(rng.choice(["and %s contains \"ab\"", "or %s == \"zz\"", "and %s matches /a.c/"]) % e)
        elif kind == "b":
            parts.append(rng.choice(["and %s", "or not %s"]) % e)
        else:
            parts.append(rng.choice(["and %s > 1.5", "or %s < 0.25"]) % e)
    r.imports = []
    if modules and rng.random() < 0.3:
        mod = rng.choice(modules)
        r.imports.append(mod)
        parts.append({"pe": "or pe.number_of_sections == 3", "elf": "or elf.type == elf.ET_EXEC",
                      "math": "and math.entropy(0, filesize) >= 0.0", "hash": "or hash.md5(0, filesize) == \"d41d8cd98f00b204e9800998ecf8427e\"",
                      "time": "and time.now() > 0", "string": "or string.length(\"ab\") == 3",
                      "console": "and console.log(\"x\")", "dotnet": "or dotnet.is_dotnet",
                      "tests": "or tests.constants.one == 2"}[mod])
    r.cond = " ".join(parts)
    out = ["%srule %s%s {" % (r.flags, name, (" : " + " ".join(r.tags)) if r.tags else "")]
    if r.metas:
        out.append("  meta:")
        out += ["    " + m for m in r.metas]
    if r.strings:
        out.append("  strings:")
        out += ["    $%s = %s" % (s.ident, s.text) for s in r.strings]
    out.append("  condition:\n    " + r.cond)
    out.append("}")
    r.text = "\n".join(out)
    return r


def gen_buffers(rng, rules, n=3, maxlen=3000):
    samplers = [s.sample for r in rules for s in r.strings]
    bufs = []
    for i in range(n):
        parts = []
        if samplers:
            for _ in range(rng.randint(0, 10 if i else 3)):
                try:
                    parts.append(rng.choice(samplers)(rng))
                except Exception:
                    pass
                k = rng.random()
                if k < 0.4:
                    parts.append(bytes(rng.randrange(256) for _ in range(rng.randint(0, 6))))
                elif k < 0.6:
                    parts.append(rng.choice([b" ", b"\x00", b".", b"a"]))
        b = b"".join(parts)
        if rng.random() < 0.1:
            b = b"MZ" + b
        bufs.append(b[:maxlen])
    if rng.random() < 0.3:
        bufs.append(b"")
    return bufs


def scan_signature(scan, rule_key=None):
    """Comparable summary of a scan result (dict from the harness): {rule: (msgtype, matches)}"""
    out = {}
    for mm in scan["msgs"]:
        if mm[0] in (1, 2):
            out[mm[1]] = (mm[0], scan["matches"].get(mm[1], {}))
    return out
