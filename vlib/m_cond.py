"""Reference evaluator + generator for rule conditions (C04), from docs/writingrules.rst.
Values: int (signed 64-bit), float, bytes, bool, UNDEF, AMB (manual is silent -> not judged)."""
import math
import random
import struct


class _U:
    def __repr__(self):
        return "UNDEF"


class _A:
    def __repr__(self):
        return "AMB"


UNDEF = _U()
AMB = _A()
M64 = (1 << 64) - 1
I64MIN = -(1 << 63)
I64MAX = (1 << 63) - 1


def wrap(v):
    v &= M64
    return v - (1 << 64) if v >> 63 else v


_LOWER = bytes((c + 32 if 65 <= c <= 90 else c) for c in range(256))

# precedence levels (higher binds tighter)
P_OR, P_AND, P_NOT, P_EQ, P_REL, P_BOR, P_BXOR, P_BAND, P_SHIFT, P_ADD, P_MUL, P_UNARY, P_ATOM = range(1, 14)
BINPREC = {"|": P_BOR, "^": P_BXOR, "&": P_BAND, "<<": P_SHIFT, ">>": P_SHIFT, "+": P_ADD, "-": P_ADD, "*": P_MUL,
           "\\": P_MUL, "%": P_MUL}
CMPPREC = {"==": P_EQ, "!=": P_EQ, "<": P_REL, "<=": P_REL, ">": P_REL, ">=": P_REL}
STROPS = ["contains", "icontains", "startswith", "istartswith", "endswith", "iendswith", "iequals"]


def qstr(b):
    out = ['"']
    for c in b:
        if c == 0x22:
            out.append('\\"')
        elif c == 0x5c:
            out.append("\\\\")
        elif 32 <= c < 127:
            out.append(chr(c))
        else:
            out.append("\\x%02x" % c)
    out.append('"')
    return "".join(out)


def prec(n):
    t = n[0]
    if t == "or":
        return P_OR
    if t == "and":
        return P_AND
    if t in ("not", "defined"):
        return P_NOT
    if t == "cmp":
        return CMPPREC[n[1]]
    if t == "sop":
        return P_EQ
    if t == "bin":
        return BINPREC[n[1]]
    if t in ("neg", "bnot"):
        return P_UNARY
    if t == "int" and n[1] < 0:
        return P_UNARY
    if t == "flt" and n[1] < 0:
        return P_UNARY
    if t in ("of", "forof", "forin", "at", "in"):
        return P_NOT + 0.5   # closed on the right by ')' or a primary; safe directly under and/or/not
    return P_ATOM


def R(n, minp):
    s = render(n)
    if prec(n) < minp:
        return "(" + s + ")"
    return s


def render_int(v, style=0):
    if v < 0:
        return "-" + render_int(-v, style)
    if style == 1:
        return "0x%x" % v
    if style == 2 and v % 1024 == 0 and v > 0:
        return "%dKB" % (v // 1024)
    if style == 3 and v % (1024 * 1024) == 0 and v > 0:
        return "%dMB" % (v // (1024 * 1024))
    if style == 4:
        return "0o%o" % v
    return "%d" % v


def render_quant(q):
    if q[0] in ("all", "any", "none"):
        return q[0]
    if q[0] == "pct":
        return R(q[1], P_BOR) + "%"
    return R(q[1], P_BOR)


def render_set(s):
    if s == "them":
        return "them"
    if isinstance(s, tuple) and s[0] == "rules":
        return "(" + ",".join(s[1]) + ")"
    return "(" + ",".join(s) + ")"


def render(n):
    t = n[0]
    if t == "int":
        return render_int(n[1], n[2] if len(n) > 2 else 0)
    if t == "flt":
        return repr(float(n[1]))
    if t == "str":
        return qstr(n[1])
    if t in ("ext", "extf", "exts", "extb", "var", "rule", "svar"):
        return n[1]
    if t == "filesize":
        return "filesize"
    if t == "true":
        return "true"
    if t == "false":
        return "false"
    if t == "count":
        return "#" + n[1]
    if t == "count_in":
        return "#%s in (%s..%s)" % (n[1], R(n[2], P_BOR), R(n[3], P_BOR))
    if t == "offset":
        return "@" + n[1] + ("" if n[2] is None else "[%s]" % render(n[2]))
    if t == "length":
        return "!" + n[1] + ("" if n[2] is None else "[%s]" % render(n[2]))
    if t == "read":
        return "%s(%s)" % (n[1], render(n[2]))
    if t == "neg":
        s = R(n[1], P_UNARY)
        return "-" + (" " if s.startswith("-") else "") + s
    if t == "bnot":
        return "~" + R(n[1], P_UNARY)
    if t == "bin":
        p = BINPREC[n[1]]
        return "%s %s %s" % (R(n[2], p), n[1], R(n[3], p + 1))
    if t == "cmp":
        return "%s %s %s" % (R(n[2], P_BOR), n[1], R(n[3], P_BOR))
    if t == "sop":
        return "%s %s %s" % (R(n[2], P_BOR), n[1], R(n[3], P_BOR))
    if t == "found":
        return "$" + n[1]
    if t == "at":
        return "$%s at %s" % (n[1], R(n[2], P_BOR))
    if t == "in":
        return "$%s in (%s..%s)" % (n[1], R(n[2], P_BOR), R(n[3], P_BOR))
    if t == "not":
        return "not " + R(n[1], P_NOT)
    if t == "defined":
        return "defined " + R(n[1], P_NOT)
    if t == "and":
        return "%s and %s" % (R(n[1], P_AND), R(n[2], P_AND + 0.1))
    if t == "or":
        return "%s or %s" % (R(n[1], P_OR), R(n[2], P_OR + 0.1))
    if t == "intbool":
        return render(n[1])
    if t == "of":
        _, q, sset, extra = n
        s = "%s of %s" % (render_quant(q), render_set(sset))
        if extra is not None:
            if extra[0] == "in":
                s += " in (%s..%s)" % (R(extra[1], P_BOR), R(extra[2], P_BOR))
            else:
                s += " at %s" % R(extra[1], P_BOR)
        return s
    if t == "forof":
        _, q, sset, body = n
        return "for %s of %s : (%s)" % (render_quant(q), render_set(sset), render(body))
    if t == "forin":
        _, q, var, it, body = n
        if it[0] == "range":
            its = "(%s..%s)" % (R(it[1], P_BOR), R(it[2], P_BOR))
        elif it[0] == "enum":
            its = "(" + ",".join(R(x, P_BOR) for x in it[1]) + ")"
        else:
            its = "(" + ",".join(qstr(x) for x in it[1]) + ")"
        return "for %s %s in %s : (%s)" % (render_quant(q), var, its, render(body))
    # placeholders inside for..of
    if t == "ph_found":
        return "$"
    if t == "ph_count":
        return "#"
    if t == "ph_offset":
        return "@" + ("" if n[1] is None else "[%s]" % render(n[1]))
    if t == "ph_length":
        return "!" + ("" if n[1] is None else "[%s]" % render(n[1]))
    if t == "ph_at":
        return "$ at %s" % R(n[1], P_BOR)
    if t == "ph_in":
        return "$ in (%s..%s)" % (R(n[1], P_BOR), R(n[2], P_BOR))
    raise ValueError(t)


# ---------------------------------------------------------------------------
# evaluation

class Env:
    def __init__(self, buf, matches, ext, rules):
        self.buf = buf
        self.matches = matches      # id -> sorted list of (off, len)
        self.ext = ext              # name -> value
        self.rules = rules          # name -> bool/AMB
        self.vars = {}
        self.cur = []               # stack of current string ids in for..of

    def set_ids(self, sset):
        if sset == "them":
            return sorted(self.matches)
        out = []
        for it in sset:
            name = it[1:]
            if name.endswith("*"):
                out.extend(k for k in sorted(self.matches) if k.startswith(name[:-1]))
            else:
                out.append(name)
        seen = []
        for x in out:
            if x not in seen:
                seen.append(x)
        return seen

    def rule_ids(self, rset):
        """A wildcard also covers the rule being evaluated (it is false while its own condition runs:
        tests/test-rules.c documents 'rule a { condition: 1 of (a*) }' as compiling and being false)."""
        out = []
        for it in rset:
            if it.endswith("*"):
                out.extend(k for k in self.rules if k.startswith(it[:-1]))
                cur = getattr(self, "current_rule", None)
                if cur is not None and cur.startswith(it[:-1]) and cur not in out:
                    out.append(cur)
            else:
                out.append(it)
        return out


def truth(v):
    """value used as a boolean: UNDEF stays UNDEF"""
    if v is UNDEF or v is AMB:
        return v
    if isinstance(v, bool):
        return v
    if isinstance(v, (int, float)):
        return v != 0
    if isinstance(v, bytes):
        return len(v) > 0
    return bool(v)


def quant_result(q, env, ntrue, total):
    if q[0] == "all":
        if total == 0:
            return AMB
        return ntrue >= total
    if q[0] == "any":
        return ntrue >= 1
    if q[0] == "none":
        if total == 0:
            return AMB
        return ntrue == 0
    v = ev(q[1], env)
    if v is UNDEF or v is AMB:
        return AMB
    if isinstance(v, float):
        return AMB
    if q[0] == "pct":
        if total == 0:
            return AMB
        if v < 1 or v > 100:
            return AMB
        return ntrue * 100 >= v * total
    if v <= 0:
        return AMB
    return ntrue >= v


def ev(n, env):
    t = n[0]
    if t == "int":
        return n[1]
    if t == "flt":
        return float(n[1])
    if t == "str":
        return n[1]
    if t in ("ext", "extf", "exts", "extb"):
        return env.ext[n[1]]
    if t == "var" or t == "svar":
        return env.vars[n[1]]
    if t == "rule":
        return env.rules[n[1]]
    if t == "filesize":
        return len(env.buf)
    if t == "true":
        return True
    if t == "false":
        return False
    if t in ("count", "ph_count"):
        sid = n[1] if t == "count" else env.cur[-1]
        return len(env.matches[sid])
    if t == "count_in":
        lo, hi = ev(n[2], env), ev(n[3], env)
        if lo is AMB or hi is AMB:
            return AMB
        if lo is UNDEF or hi is UNDEF:
            return UNDEF
        return sum(1 for o, _l in env.matches[n[1]] if lo <= o <= hi)
    if t in ("offset", "length", "ph_offset", "ph_length"):
        if t.startswith("ph_"):
            sid, idx = env.cur[-1], n[1]
        else:
            sid, idx = n[1], n[2]
        i = 1 if idx is None else ev(idx, env)
        if i is AMB:
            return AMB
        if i is UNDEF:
            return UNDEF
        ms = env.matches[sid]
        if i < 1 or i > len(ms):
            return UNDEF
        return ms[i - 1][0] if t.endswith("offset") else ms[i - 1][1]
    if t == "read":
        off = ev(n[2], env)
        if off is AMB:
            return AMB
        if off is UNDEF:
            return UNDEF
        fn = n[1]
        be = fn.endswith("be")
        base = fn[:-2] if be else fn
        signed = not base.startswith("u")
        bits = int(base.lstrip("uint"))
        size = bits // 8
        if off < 0 or off + size > len(env.buf):
            return UNDEF
        chunk = env.buf[off:off + size]
        return int.from_bytes(chunk, "big" if be else "little", signed=signed)
    if t == "neg":
        v = ev(n[1], env)
        if v is UNDEF or v is AMB:
            return v
        if isinstance(v, float):
            return -v
        return wrap(-v)
    if t == "bnot":
        v = ev(n[1], env)
        if v is UNDEF or v is AMB:
            return v
        return wrap(~v)
    if t == "bin":
        a, b = ev(n[2], env), ev(n[3], env)
        if a is AMB or b is AMB:
            return AMB
        if a is UNDEF or b is UNDEF:
            return UNDEF
        op = n[1]
        if isinstance(a, float) or isinstance(b, float):
            a, b = float(a), float(b)
            if op == "+":
                return a + b
            if op == "-":
                return a - b
            if op == "*":
                return a * b
            if op == "\\":
                if b == 0.0:
                    return AMB
                return a / b
            return AMB
        if op == "+":
            return wrap(a + b)
        if op == "-":
            return wrap(a - b)
        if op == "*":
            return wrap(a * b)
        if op in ("\\", "%"):
            if b == 0 or (a == I64MIN and b == -1):
                return UNDEF
            q = abs(a) // abs(b)
            if (a < 0) != (b < 0):
                q = -q
            return q if op == "\\" else a - q * b
        if op == "&":
            return wrap(a & b)
        if op == "|":
            return wrap(a | b)
        if op == "^":
            return wrap(a ^ b)
        if op == "<<":
            if b < 0:
                return UNDEF
            return 0 if b >= 64 else wrap(a << b)
        if op == ">>":
            if b < 0:
                return UNDEF
            return 0 if b >= 64 else a >> b
        raise ValueError(op)
    if t == "cmp":
        a, b = ev(n[2], env), ev(n[3], env)
        if a is AMB or b is AMB:
            return AMB
        if a is UNDEF or b is UNDEF:
            return UNDEF
        op = n[1]
        if isinstance(a, bytes) != isinstance(b, bytes):
            return AMB
        if isinstance(a, bytes) and op not in ("==", "!="):
            # ordering of bytes >= 0x80 is not specified by the manual (the engine compares plain chars)
            k = 0
            while k < len(a) and k < len(b) and a[k] == b[k]:
                k += 1
            if k < len(a) and k < len(b) and (a[k] >= 0x80 or b[k] >= 0x80):
                return AMB
        if (isinstance(a, float) or isinstance(b, float)) and op in ("==", "!="):
            a, b = float(a), float(b)
            if a != b and abs(a - b) < 1e-3:
                return AMB
        return {"==": a == b, "!=": a != b, "<": a < b, "<=": a <= b, ">": a > b, ">=": a >= b}[op]
    if t == "sop":
        a, b = ev(n[2], env), ev(n[3], env)
        if a is AMB or b is AMB:
            return AMB
        if a is UNDEF or b is UNDEF:
            return UNDEF
        op = n[1]
        if op.startswith("i"):
            a, b = a.translate(_LOWER), b.translate(_LOWER)
            op = op[1:]
        if op == "contains":
            return b in a
        if op == "startswith":
            return a.startswith(b)
        if op == "endswith":
            return a.endswith(b)
        if op == "equals":
            return a == b
        raise ValueError(op)
    if t in ("found", "ph_found"):
        sid = n[1] if t == "found" else env.cur[-1]
        return len(env.matches[sid]) > 0
    if t in ("at", "ph_at"):
        sid, e = (n[1], n[2]) if t == "at" else (env.cur[-1], n[1])
        v = ev(e, env)
        if v is AMB:
            return AMB
        if v is UNDEF:
            return UNDEF
        if isinstance(v, float):
            return AMB
        return any(o == v for o, _l in env.matches[sid])
    if t in ("in", "ph_in"):
        sid, e1, e2 = (n[1], n[2], n[3]) if t == "in" else (env.cur[-1], n[1], n[2])
        lo, hi = ev(e1, env), ev(e2, env)
        if lo is AMB or hi is AMB:
            return AMB
        if lo is UNDEF or hi is UNDEF:
            return UNDEF
        return any(lo <= o <= hi for o, _l in env.matches[sid])
    if t == "not":
        v = truth(ev(n[1], env))
        if v is UNDEF or v is AMB:
            return v
        return not v
    if t == "defined":
        v = ev(n[1], env)
        if v is AMB:
            return AMB
        return v is not UNDEF
    if t == "and":
        a, b = truth(ev(n[1], env)), truth(ev(n[2], env))
        fa = a is UNDEF or a is False
        fb = b is UNDEF or b is False
        if fa or fb:
            return False
        if a is AMB or b is AMB:
            return AMB
        return True
    if t == "or":
        a, b = truth(ev(n[1], env)), truth(ev(n[2], env))
        if a is True or b is True:
            return True
        if a is AMB or b is AMB:
            return AMB
        return False
    if t == "intbool":
        return truth(ev(n[1], env))
    if t == "of":
        _, q, sset, extra = n
        if isinstance(sset, tuple) and sset and sset[0] == "rules":
            ids = env.rule_ids(sset[1])
            vals = [env.rules.get(i, False) for i in ids]
            if any(v is AMB for v in vals):
                return AMB
            ntrue = sum(1 for v in vals if v)
            return quant_result(q, env, ntrue, len(ids))
        ids = env.set_ids(sset)
        if extra is None:
            ntrue = sum(1 for i in ids if env.matches[i])
        elif extra[0] == "in":
            lo, hi = ev(extra[1], env), ev(extra[2], env)
            if lo is AMB or hi is AMB:
                return AMB
            if lo is UNDEF or hi is UNDEF:
                return UNDEF
            ntrue = sum(1 for i in ids if any(lo <= o <= hi for o, _l in env.matches[i]))
        else:
            v = ev(extra[1], env)
            if v is AMB:
                return AMB
            if v is UNDEF:
                return UNDEF
            ntrue = sum(1 for i in ids if any(o == v for o, _l in env.matches[i]))
        return quant_result(q, env, ntrue, len(ids))
    if t == "forof":
        _, q, sset, body = n
        ids = env.set_ids(sset)
        ntrue = 0
        amb = False
        for i in ids:
            env.cur.append(i)
            v = truth(ev(body, env))
            env.cur.pop()
            if v is AMB:
                amb = True
            elif v is True:
                ntrue += 1
        if amb:
            return AMB
        return quant_result(q, env, ntrue, len(ids))
    if t == "forin":
        _, q, var, it, body = n
        if it[0] == "range":
            lo, hi = ev(it[1], env), ev(it[2], env)
            if lo is AMB or hi is AMB or lo is UNDEF or hi is UNDEF:
                return AMB
            if hi - lo > 4096:
                return AMB
            items = list(range(lo, hi + 1))
        elif it[0] == "enum":
            items = [ev(x, env) for x in it[1]]
            if any(x is AMB or x is UNDEF for x in items):
                return AMB
        else:
            items = list(it[1])
        ntrue = 0
        amb = False
        for x in items:
            old = env.vars.get(var)
            env.vars[var] = x
            v = truth(ev(body, env))
            if old is None:
                del env.vars[var]
            else:
                env.vars[var] = old
            if v is AMB:
                amb = True
            elif v is True:
                ntrue += 1
        if amb:
            return AMB
        return quant_result(q, env, ntrue, len(items))
    raise ValueError(t)


# ---------------------------------------------------------------------------
# generator

INT_BOUNDARY = [0, 1, 2, 3, 7, 8, 255, 256, 1024, 65535, 65536, (1 << 31) - 1, 1 << 31, (1 << 32) - 1, 1 << 32,
                I64MAX, I64MAX - 1, 1 << 62]
READERS = ["int8", "int16", "int32", "uint8", "uint16", "uint32", "int8be", "int16be", "int32be", "uint8be",
           "uint16be", "uint32be"]


class Gen:
    def __init__(self, rng, strings, ext, rules, buflen):
        self.rng = rng
        self.strings = strings      # list of ids ("a", "b1", ...)
        self.ext = ext              # name -> (type, value)
        self.rules = rules          # earlier rule names
        self.buflen = buflen
        self.loopvars = []          # (name, kind) kind int|str
        self.in_forof = 0
        self.loop_depth = 0
        self.allow_rule_wildcard = False
        self.stats = {}

    def note(self, k):
        self.stats[k] = self.stats.get(k, 0) + 1

    def lit(self, v=None):
        rng = self.rng
        if v is None:
            r = rng.random()
            if r < 0.5:
                v = rng.randint(0, 12)
            elif r < 0.8:
                v = rng.choice([0, 1, self.buflen, self.buflen - 1, self.buflen + 1, max(0, self.buflen - 4)])
            else:
                v = rng.choice(INT_BOUNDARY)
        style = rng.choice([0, 0, 0, 1, 2, 3, 4])
        return ("int", v, style)

    def int_atom(self, allow_undef=True):
        rng = self.rng
        r = rng.random()
        if r < 0.3:
            return self.lit()
        if r < 0.38:
            return ("filesize",)
        if r < 0.44 and self.strings:
            self.note("count")
            return ("count", rng.choice(self.strings))
        if r < 0.5 and self.strings:
            self.note("count_in")
            s = rng.choice(self.strings)
            k = rng.random()
            if k < 0.5:
                lo, hi = self.range_bounds()
            else:
                # bounds sitting exactly on match offsets
                lo = ("int", rng.choice([0, 1, 2]), 0) if rng.random() < 0.5 else ("offset", s, ("int", rng.choice([1, 2]), 0))
                hi = ("offset", s, ("int", rng.choice([1, 2, 3]), 0)) if rng.random() < 0.7 else \
                    ("bin", "+", ("offset", s, None), ("int", rng.choice([0, 1, 2, 5]), 0))
            return ("count_in", s, lo, hi)
        if r < 0.6 and self.strings:
            self.note("offset")
            idx = None if rng.random() < 0.3 else self.small_index()
            return ("offset", rng.choice(self.strings), idx)
        if r < 0.66 and self.strings:
            self.note("length")
            idx = None if rng.random() < 0.3 else self.small_index()
            return ("length", rng.choice(self.strings), idx)
        if r < 0.78:
            self.note("read")
            return ("read", rng.choice(READERS), self.read_offset())
        if r < 0.86:
            ints = [k for k, (t, _v) in self.ext.items() if t == "i"]
            if ints:
                self.note("ext_int")
                return ("ext", rng.choice(ints))
        if r < 0.94:
            ivars = [nm for nm, k in self.loopvars if k == "int"]
            if ivars:
                self.note("loopvar")
                return ("var", rng.choice(ivars))
        if self.in_forof and rng.random() < 0.7:
            self.note("placeholder")
            k = rng.random()
            if k < 0.4:
                return ("ph_count",)
            if k < 0.7:
                return ("ph_offset", None if rng.random() < 0.5 else self.small_index())
            return ("ph_length", None if rng.random() < 0.5 else self.small_index())
        return self.lit()

    def small_index(self):
        rng = self.rng
        r = rng.random()
        if r < 0.6:
            return ("int", rng.choice([0, 1, 1, 2, 3, 99]), 0)
        ivars = [nm for nm, k in self.loopvars if k == "int"]
        if ivars and r < 0.85:
            return ("var", rng.choice(ivars))
        if self.strings:
            return ("bin", "+", ("count", rng.choice(self.strings)), ("int", rng.choice([0, 1]), 0))
        return ("int", 1, 0)

    def read_offset(self):
        rng = self.rng
        r = rng.random()
        if r < 0.5:
            return ("int", rng.choice([0, 1, 2, max(0, self.buflen - 1), max(0, self.buflen - 2), max(0, self.buflen - 4),
                                       self.buflen, self.buflen + 1, 1000]), 0)
        if r < 0.7:
            return ("bin", "-", ("filesize",), ("int", rng.choice([0, 1, 2, 3, 4, 5]), 0))
        if r < 0.85 and self.strings:
            return ("offset", rng.choice(self.strings), None)
        return self.int_expr(1)

    def int_expr(self, depth, allow_float=False):
        rng = self.rng
        if depth <= 0 or rng.random() < 0.3:
            return self.int_atom()
        r = rng.random()
        if r < 0.1:
            self.note("neg")
            return ("neg", self.int_expr(depth - 1))
        if r < 0.17:
            self.note("bnot")
            return ("bnot", self.int_expr(depth - 1))
        op = rng.choice(["+", "-", "*", "\\", "%", "&", "|", "^", "<<", ">>", "+", "-"])
        self.note("op" + op)
        a = self.int_expr(depth - 1)
        b = self.int_expr(depth - 1)
        if op in ("\\", "%"):
            # literal zero divisors are compile errors: use non-zero literal, an external that is zero, or an expression
            k = rng.random()
            if k < 0.5:
                b = ("int", rng.choice([1, 2, 3, 7, 256, -1, -3]), 0)
            elif k < 0.7:
                x = ("filesize",) if (rng.random() < 0.5 or not self.strings) else ("count", rng.choice(self.strings))
                b = ("bin", "-", x, x)
            if b[0] == "int" and b[1] == 0:
                b = ("int", 1, 0)
            if is_const(b) and const_val(b) in (0, None):
                b = ("int", 5, 0)
        if op in ("<<", ">>"):
            k = rng.random()
            if k < 0.7:
                b = ("int", rng.choice([0, 1, 2, 7, 8, 31, 32, 63, 64, 65, 100]), 0)
            if is_const(b):
                cv = const_val(b)
                if cv is None or cv < 0:
                    b = ("int", 3, 0)
        return ("bin", op, a, b)

    def num_expr(self, depth):
        """int or float typed"""
        rng = self.rng
        if rng.random() < 0.12:
            self.note("float")
            r = rng.random()
            if r < 0.5:
                return ("flt", rng.choice([0.0, 0.5, 1.0, 1.5, 2.25, 100.75, 3.0]))
            fl = [nm for nm, (t, v) in self.ext.items() if t == "f"]
            if fl and r < 0.7:
                return ("extf", rng.choice(fl))
            op = rng.choice(["+", "-", "*", "\\"])
            a = self.int_expr(depth - 1) if rng.random() < 0.5 else ("flt", rng.choice([0.5, 1.5, 2.0]))
            b = ("flt", rng.choice([0.5, 2.0, 4.0, 1.25]))
            return ("bin", op, a, b)
        return self.int_expr(depth)

    def str_expr(self):
        rng = self.rng
        r = rng.random()
        svars = [nm for nm, k in self.loopvars if k == "str"]
        if svars and r < 0.4:
            return ("svar", rng.choice(svars))
        ss = [nm for nm, (t, v) in self.ext.items() if t == "s"]
        if ss and r < 0.75:
            return ("exts", rng.choice(ss))
        return ("str", rng.choice([b"abc", b"ABC", b"ab", b"", b"xyz", b"abcabc", b"bc", b"Abc", b"a\x00b", b"\xffz"]))

    def quant(self, nset, allow_pct=False):
        rng = self.rng
        r = rng.random()
        if not allow_pct and 0.5 <= r < 0.62:
            r = rng.choice([0.1, 0.3, 0.7])
        if r < 0.2:
            return ("all",)
        if r < 0.4:
            return ("any",)
        if r < 0.5:
            return ("none",)
        if r < 0.62:
            return ("pct", ("int", rng.choice([1, 25, 50, 51, 75, 100, 34, 67]), 0))
        if r < 0.9 or not self.strings:
            n = rng.randint(1, max(1, nset))
            return ("n", ("int", n, 0))
        return ("n", ("bin", "+", ("count", rng.choice(self.strings)), ("int", 1, 0)))

    def string_set(self):
        rng = self.rng
        r = rng.random()
        if r < 0.4:
            return "them", len(self.strings)
        if r < 0.55:
            pref = rng.choice(self.strings)[0]
            ids = [s for s in self.strings if s.startswith(pref)]
            return ["$%s*" % pref], len(ids)
        k = rng.randint(1, len(self.strings))
        ids = rng.sample(self.strings, k)
        return ["$" + i for i in ids], k

    def bool_atom(self, depth):
        rng = self.rng
        r = rng.random()
        S = self.strings
        if r < 0.12 and S:
            self.note("found")
            return ("found", rng.choice(S))
        if r < 0.2 and S:
            self.note("at")
            return ("at", rng.choice(S), self.off_expr())
        if r < 0.27 and S:
            self.note("in")
            lo, hi = self.range_bounds()
            return ("in", rng.choice(S), lo, hi)
        if r < 0.45:
            op = rng.choice(["==", "!=", "<", "<=", ">", ">="])
            self.note("cmp" + op)
            return ("cmp", op, self.num_expr(depth - 1), self.num_expr(depth - 1))
        if r < 0.52:
            op = rng.choice(STROPS + ["==", "!=", "<", ">="])
            self.note("strop")
            if op in STROPS:
                return ("sop", op, self.str_expr(), self.str_expr())
            return ("cmp", op, self.str_expr(), self.str_expr())
        if r < 0.57:
            return ("true",) if rng.random() < 0.5 else ("false",)
        if r < 0.63 and self.rules:
            self.note("ruleref")
            return ("rule", rng.choice(self.rules))
        if r < 0.67:
            bs = [nm for nm, (t, v) in self.ext.items() if t == "b"]
            if bs:
                return ("extb", rng.choice(bs))
        if r < 0.72:
            self.note("defined")
            return ("defined", self.int_expr(1) if rng.random() < 0.7 else self.bool_expr(depth - 1))
        if r < 0.76:
            self.note("intbool")
            return ("intbool", self.int_expr(1))
        if r < 0.84 and S:
            self.note("of")
            sset, n = self.string_set()
            q = self.quant(n, allow_pct=True)
            k = rng.random()
            extra = None
            if k < 0.25:
                lo, hi = self.range_bounds()
                extra = ("in", lo, hi)
            elif k < 0.4:
                extra = ("at", self.off_expr())
            if q[0] == "pct" and extra is not None:
                extra = None
            return ("of", q, sset, extra)
        if r < 0.87 and len(self.rules) >= 1:
            self.note("of_rules")
            k = rng.randint(1, len(self.rules))
            if rng.random() < 0.4 and self.allow_rule_wildcard:
                rs = ["r*"]
                n = len(self.rules) + 1
            else:
                rs = rng.sample(self.rules, k)
                n = k
            q = self.quant(n, allow_pct=True)
            if q[0] == "n" and q[1][0] != "int":
                q = ("any",)
            return ("of", q, ("rules", rs), None)
        if r < 0.93 and S and self.loop_depth < 4 and depth > 0 and not self.in_forof:
            self.note("forof")
            sset, n = self.string_set()
            q = self.quant(n)
            self.in_forof += 1
            self.loop_depth += 1
            body = self.forof_body(depth - 1)
            self.loop_depth -= 1
            self.in_forof -= 1
            return ("forof", q, sset, body)
        if self.loop_depth < 4 and depth > 0:
            self.note("forin")
            return self.forin(depth)
        if self.in_forof:
            return ("ph_found",)
        return ("cmp", "==", self.int_atom(), self.int_atom())

    def forof_body(self, depth):
        rng = self.rng
        r = rng.random()
        if r < 0.2:
            return ("ph_found",)
        if r < 0.35:
            return ("ph_at", self.off_expr())
        if r < 0.5:
            lo, hi = self.range_bounds()
            return ("ph_in", lo, hi)
        if r < 0.75:
            op = rng.choice(["==", "!=", "<", "<=", ">", ">="])
            ph = rng.choice([("ph_count",), ("ph_offset", None), ("ph_length", None), ("ph_offset", self.small_index())])
            return ("cmp", op, ph, self.int_expr(1))
        return self.bool_expr(depth)

    def forin(self, depth):
        rng = self.rng
        name = "ijklmn"[len(self.loopvars)] if len(self.loopvars) < 6 else "v%d" % len(self.loopvars)
        r = rng.random()
        kind = "int"
        if r < 0.5:
            lo = rng.choice([0, 1, 1, 2])
            k = rng.random()
            if k < 0.5 or not self.strings:
                hi_e = ("int", lo + rng.randint(0, 6), 0)
            elif k < 0.8:
                hi_e = ("count", rng.choice(self.strings))
                lo = rng.choice([0, 1])
            else:
                hi_e = ("bin", "+", ("count", rng.choice(self.strings)), ("int", rng.choice([1, 2]), 0))
            it = ("range", ("int", lo, 0), hi_e)
            n = 5
        elif r < 0.85:
            items = [self.int_expr(1) if rng.random() < 0.3 else ("int", rng.choice([0, 1, 2, 3, 5, 8, 99, self.buflen]), 0)
                     for _ in range(rng.randint(1, 5))]
            it = ("enum", items)
            n = len(items)
        else:
            items = [rng.choice([b"abc", b"ab", b"x", b"ABC", b"", b"bc"]) for _ in range(rng.randint(1, 4))]
            it = ("strs", items)
            n = len(items)
            kind = "str"
        q = self.quant(n)
        if q[0] == "n" and q[1][0] != "int":
            q = ("any",)
        self.loopvars.append((name, kind))
        self.loop_depth += 1
        if kind == "str" and rng.random() < 0.7:
            body = ("sop", rng.choice(STROPS), self.str_expr(), ("svar", name)) if rng.random() < 0.5 else \
                ("cmp", rng.choice(["==", "!="]), ("svar", name), self.str_expr())
        elif kind == "int" and rng.random() < 0.6 and self.strings:
            s = rng.choice(self.strings)
            body = ("cmp", rng.choice(["==", "<", ">=", "!="]), ("offset", s, ("var", name)), self.int_expr(1))
        else:
            body = self.bool_expr(depth - 1)
        self.loop_depth -= 1
        self.loopvars.pop()
        return ("forin", q, name, it, body)

    def off_expr(self):
        rng = self.rng
        r = rng.random()
        if r < 0.6:
            return ("int", rng.choice([0, 1, 2, 3, 5, max(0, self.buflen - 3), self.buflen]), 0)
        if r < 0.8 and self.strings:
            return ("offset", rng.choice(self.strings), None if rng.random() < 0.5 else self.small_index())
        return self.int_expr(1)

    def range_bounds(self):
        rng = self.rng
        lo = rng.choice([0, 0, 1, 2, 5])
        r = rng.random()
        if r < 0.6:
            return ("int", lo, 0), ("int", lo + rng.choice([0, 1, 3, 10, 1000]), 0)
        if r < 0.8:
            return ("int", lo, 0), ("filesize",)
        return ("int", lo, 0), ("bin", "+", ("filesize",), ("int", rng.choice([0, 1, 5]), 0))

    def bool_expr(self, depth):
        rng = self.rng
        if depth <= 0 or rng.random() < 0.3:
            return self.bool_atom(depth)
        r = rng.random()
        if r < 0.2:
            self.note("not")
            return ("not", self.bool_expr(depth - 1))
        if r < 0.6:
            self.note("and")
            return ("and", self.bool_expr(depth - 1), self.bool_expr(depth - 1))
        self.note("or")
        return ("or", self.bool_expr(depth - 1), self.bool_expr(depth - 1))


EXT_CONST = {}


def is_const(n):
    t = n[0]
    if t in ("int", "flt"):
        return True
    if t in ("ext", "extf") and n[1] in EXT_CONST:
        return True
    if t in ("neg", "bnot"):
        return is_const(n[1])
    if t == "bin":
        if n[1] in ("<<", ">>") and is_const(n[3]):
            cv = const_val(n[3])
            if cv is not None and cv >= 64:
                return True          # the compiler knows the result is 0 whatever the left operand is
        return is_const(n[2]) and is_const(n[3])
    return False


def const_val(n):
    try:
        v = ev(n, Env(b"", {}, dict(EXT_CONST), {}))
    except Exception:
        return None
    if v is UNDEF or v is AMB:
        return None
    return v


def has_const_problem(n):
    """True if the tree contains a constant sub-expression the compiler is documented to reject or that
    folds to an undefined value (literal zero divisor, negative shift, overflow is fine)."""
    t = n[0]
    if t == "bin":
        if n[1] in ("\\", "%") and is_const(n[3]) and const_val(n[3]) in (0, 0.0, None):
            return True
        if n[1] in ("<<", ">>") and is_const(n[3]):
            cv = const_val(n[3])
            if cv is None or cv < 0:
                return True
        if is_const(n) and const_val(n) is None:
            return True
        if n[1] in ("+", "-", "*") and is_const(n[2]) and is_const(n[3]):
            a, b = const_val(n[2]), const_val(n[3])
            if isinstance(a, int) and isinstance(b, int):
                exact = a + b if n[1] == "+" else (a - b if n[1] == "-" else a * b)
                if exact < I64MIN or exact > I64MAX:
                    return True      # documented compile error: integer overflow
                if n[1] == "*" and abs(a) * abs(b) > I64MAX:
                    # the compiler tests magnitudes: a product of exactly -2^63 counts as an overflow too
                    # (tests/test-rules.c asserts it for 4611686018427387904 * -2)
                    return True
    for c in n[1:]:
        if isinstance(c, tuple) and c and isinstance(c[0], str):
            if has_const_problem(c):
                return True
        elif isinstance(c, list):
            for x in c:
                if isinstance(x, tuple) and x and isinstance(x[0], str) and has_const_problem(x):
                    return True
    return False


def all_matches(buf, pat):
    res = []
    i = buf.find(pat)
    while i >= 0:
        res.append((i, len(pat)))
        i = buf.find(pat, i + 1)
    return res
