"""Python side of the yrh harness: run batches of cases in parallel, attribute
crashes/leaks/hangs to the right case, re-run an offending case alone once."""
import json
import os
import resource
import shutil
import signal
import subprocess
import tempfile
import time
from concurrent.futures import ThreadPoolExecutor

from . import build

# one scratch tree per check process, so that two checks (or two runs of one check) never share files
WORK = os.environ.get("VERIF_WORK") or os.path.join("/verif/work", "run%d" % os.getpid())


def _cleanup_work():
    if "VERIF_WORK" not in os.environ:
        shutil.rmtree(WORK, ignore_errors=True)


import atexit  # noqa: E402
atexit.register(_cleanup_work)

ASAN_OPTS = ("abort_on_error=0:exitcode=86:detect_leaks=1:leak_check_at_exit=0:detect_stack_use_after_return=1:"
             "allocator_may_return_null=1:handle_abort=1:print_summary=1:malloc_context_size=12")
UBSAN_OPTS = "print_stacktrace=1:halt_on_error=1:exitcode=87"
LSAN_OPTS = "print_suppressions=0"


def hx(s):
    if isinstance(s, str):
        s = s.encode("latin-1")
    return s.hex() or "-"


class Case:
    """A scripted case: id + command lines (without the 'case' line)."""
    __slots__ = ("cid", "lines", "meta")

    def __init__(self, cid, lines, meta=None):
        self.cid = cid
        self.lines = lines
        self.meta = meta

    def script(self):
        return "case %s\n%s\n" % (self.cid, "\n".join(self.lines))


class CaseResult:
    __slots__ = ("cid", "status", "results", "stderr", "leak")

    def __init__(self, cid):
        self.cid = cid
        self.status = "missing"   # ok | crash | leak | timeout | missing | harness
        self.results = []
        self.stderr = ""
        self.leak = False

    def ops(self, name):
        return [r for r in self.results if r.get("op") == name]


def _limits(cpu):
    def f():
        resource.setrlimit(resource.RLIMIT_CPU, (cpu, cpu + 5))
        resource.setrlimit(resource.RLIMIT_CORE, (0, 0))
        os.setsid()
    return f


def workdir(tag):
    d = os.path.join(WORK, tag)
    os.makedirs(d, exist_ok=True)
    return d


def run_script(exe, script, wd, cpu=120, wall=None, env_extra=None, args=None):
    """Run one harness process on a script; returns (stdout, stderr, status)."""
    env = dict(os.environ)
    env["ASAN_OPTIONS"] = ASAN_OPTS
    env["UBSAN_OPTIONS"] = UBSAN_OPTS
    env["LSAN_OPTIONS"] = LSAN_OPTS
    env["TMPDIR"] = wd
    if env_extra:
        env.update(env_extra)
    fd, path = tempfile.mkstemp(prefix="script", suffix=".txt", dir=wd)
    with os.fdopen(fd, "w") as f:
        f.write("workdir %s\n" % wd)
        f.write(script)
    errpath = path + ".err"
    try:
        with open(errpath, "wb") as ef:
            p = subprocess.Popen([exe] + (args or [path]), stdout=subprocess.PIPE, stderr=ef,
                                 env=env, preexec_fn=_limits(cpu), cwd=wd)
            try:
                out, _ = p.communicate(timeout=wall or (cpu * 3 + 60))
                status = p.returncode
            except subprocess.TimeoutExpired:
                try:
                    os.killpg(p.pid, signal.SIGKILL)
                except OSError:
                    pass
                out, _ = p.communicate()
                status = "walltimeout"
        with open(errpath, "rb") as ef:
            err = ef.read().decode("utf8", "replace")
    finally:
        for q in (path, errpath):
            try:
                os.unlink(q)
            except OSError:
                pass
    return out.decode("utf8", "replace"), err, status


def parse_output(out):
    """Split harness stdout into per-case result lists. Returns (dict cid -> (results, ended, leak), last_begun)."""
    res = {}
    cur = None
    last = None
    for line in out.split("\n"):
        if not line:
            continue
        if line.startswith("BEGIN "):
            cur = line[6:].strip()
            last = cur
            res[cur] = [[], False, False]
        elif line.startswith("END "):
            parts = line.split()
            if parts[1] in res:
                res[parts[1]][1] = True
                res[parts[1]][2] = parts[2] != "0"
            cur = None
        elif cur is not None and line.startswith("{"):
            try:
                res[cur][0].append(json.loads(line))
            except ValueError:
                res[cur][0].append({"op": "garbled", "raw": line[:200]})
    return res, last


def _run_batch(exe, cases, wd, cpu, env_extra):
    """Run cases in order in as few processes as possible; returns list of CaseResult."""
    results = {}
    pending = list(cases)
    guard = 0
    while pending and guard < len(cases) + 5:
        guard += 1
        script = "".join(c.script() for c in pending)
        out, err, status = run_script(exe, script, wd, cpu=cpu, env_extra=env_extra)
        parsed, last = parse_output(out)
        done_idx = -1
        for i, c in enumerate(pending):
            if c.cid in parsed and parsed[c.cid][1]:
                r = CaseResult(c.cid)
                r.results = parsed[c.cid][0]
                r.leak = parsed[c.cid][2]
                r.status = "leak" if r.leak else "ok"
                if r.leak:
                    r.stderr = err[-6000:]
                results[c.cid] = r
                done_idx = i
            else:
                break
        rest = pending[done_idx + 1:]
        if not rest:
            break
        if status == 0:
            # clean exit but cases missing: harness problem
            for c in rest:
                r = CaseResult(c.cid)
                r.status = "harness"
                r.stderr = err[-2000:]
                results[c.cid] = r
            break
        if status == 77 and done_idx >= 0 and results[pending[done_idx].cid].leak:
            # stopped after a leaking case; continue with the rest
            pending = rest
            continue
        # the first unfinished case crashed / hung / was killed
        bad = rest[0]
        r = CaseResult(bad.cid)
        if bad.cid in parsed:
            r.results = parsed[bad.cid][0]
        r.stderr = err[-8000:]
        if status == "walltimeout" or status == -signal.SIGXCPU or status == -signal.SIGKILL:
            r.status = "timeout"
        elif status == 3:
            r.status = "harness"
        else:
            r.status = "crash"
        r.results.append({"op": "exit", "status": status})
        results[bad.cid] = r
        pending = rest[1:]
    out_list = []
    for c in cases:
        out_list.append(results.get(c.cid) or CaseResult(c.cid))
    return out_list


def run_cases(exe, cases, tag, jobs=16, batch=None, cpu=120, env_extra=None, confirm=True):
    """Run all cases; returns dict cid -> CaseResult. Crashing/hanging/leaking cases are re-run alone once;
    a case keeps its bad status only if it reproduces (otherwise status 'flaky:<first>')."""
    if not cases:
        return {}
    base = workdir(tag)
    n = len(cases)
    if batch is None:
        batch = max(1, min(200, (n + jobs * 4 - 1) // (jobs * 4)))
    chunks = [cases[i:i + batch] for i in range(0, n, batch)]
    results = {}

    def work(idx_chunk):
        idx, chunk = idx_chunk
        wd = os.path.join(base, "w%d" % (idx % (jobs * 2)), "b%d" % idx)
        os.makedirs(wd, exist_ok=True)
        try:
            return _run_batch(exe, chunk, wd, cpu, env_extra)
        finally:
            shutil.rmtree(wd, ignore_errors=True)

    with ThreadPoolExecutor(jobs) as ex:
        for lst in ex.map(work, list(enumerate(chunks))):
            for r in lst:
                results[r.cid] = r
    if confirm:
        bad = [c for c in cases if results[c.cid].status in ("crash", "timeout", "leak", "missing", "harness")]

        def rerun(c):
            wd = os.path.join(base, "rerun_%s" % abs(hash(c.cid)))
            os.makedirs(wd, exist_ok=True)
            try:
                return _run_batch(exe, [c], wd, cpu, env_extra)[0]
            finally:
                shutil.rmtree(wd, ignore_errors=True)
        if bad:
            with ThreadPoolExecutor(jobs) as ex:
                for c, r2 in zip(bad, ex.map(rerun, bad)):
                    r1 = results[c.cid]
                    if r2.status == r1.status:
                        results[c.cid] = r2
                    elif r2.status == "ok":
                        r2.status = "flaky:" + r1.status
                        r2.stderr = r1.stderr
                        results[c.cid] = r2
                    else:
                        results[c.cid] = r2
    shutil.rmtree(base, ignore_errors=True)
    for c in cases:
        r = results.get(c.cid)
        if r is not None and r.status == "ok":
            for a in r.ops("apicheck"):
                API_ISSUES.append(dict(case=c.cid, what=a["what"], script=c.script()[-3000:]))
            for fd in r.ops("fds"):
                FD_LEAKS.append(dict(case=c.cid, open_descriptors_at_begin=fd["begin"], open_descriptors_at_end=fd["end"],
                                     script=c.script()[-3000:]))
    return results


# cases that ended with a different number of open descriptors than they started with (reported by Check.finish)
FD_LEAKS = []
# API contract checks the harness makes on the side (e.g. a caller-owned descriptor closed by the library)
API_ISSUES = []


def get_exe(variant="asan", name="yrh", sources=("yrh.c",), extra_cflags=(), extra_ldflags=()):
    info = build.build_harness(variant, name, list(sources), extra_cflags, extra_ldflags)
    return info["exe"]
