"""Reference model + generator for regular expressions (C03), from docs/writingrules.rst.
Position sets are Python ints (bit p = position p); no backtracking, no atoms."""
import random

WORD = frozenset(list(range(48, 58)) + list(range(65, 91)) + list(range(97, 123)) + [95])
DIGIT = frozenset(range(48, 58))
SPACE = frozenset([32, 9, 10, 11, 12, 13])
ALL = frozenset(range(256))


def fold_closure(s):
    out = set(s)
    for c in s:
        if 65 <= c <= 90:
            out.add(c + 32)
        elif 97 <= c <= 122:
            out.add(c - 32)
    return frozenset(out)


# AST nodes (tuples):
#  ("set", frozenset positive, negated, src)   single-character matcher; src = regex text
#  ("dot",)
#  ("cat", [n...]) ("alt", [n...]) ("grp", n)
#  ("rep", n, lo, hi|None)      hi None = unbounded
#  ("bol",) ("eol",) ("wb",) ("nwb",)

SPECIAL = b"\\^$.|()[]{}*+?/"


def lit_src(c, rng=None):
    if c in SPECIAL:
        return "\\" + chr(c)
    if c == 10:
        return "\\n"
    if c == 9:
        return "\\t"
    if c == 13:
        return "\\r"
    if c == 12:
        return "\\f"
    if c == 7:
        return "\\a"
    if 32 < c < 127 and c != 0x22:
        if rng is not None and rng.random() < 0.1:
            return "\\x%02x" % c
        return chr(c)
    if c == 32:
        return " " if (rng is None or rng.random() < 0.7) else "\\x20"
    return "\\x%02X" % c


def lit(c, rng=None):
    return ("set", frozenset([c]), False, lit_src(c, rng))


def render(n, lazy):
    t = n[0]
    if t == "set":
        return n[3]
    if t == "dot":
        return "."
    if t == "cat":
        return "".join(render(x, lazy) for x in n[1])
    if t == "alt":
        return "|".join(render(x, lazy) for x in n[1])
    if t == "grp":
        return "(" + render(n[1], lazy) + ")"
    if t == "rep":
        _, x, lo, hi, form = n
        inner = render(x, lazy)
        if form == "*":
            q = "*"
        elif form == "+":
            q = "+"
        elif form == "?":
            q = "?"
        elif hi is None:
            q = "{%d,}" % lo
        elif lo == hi and form == "n":
            q = "{%d}" % lo
        elif lo == 0 and form == ",m":
            q = "{,%d}" % hi
        else:
            q = "{%d,%d}" % (lo, hi)
        return inner + q + ("?" if lazy else "")
    return {"bol": "^", "eol": "$", "wb": "\\b", "nwb": "\\B"}[t]


def nullable(n):
    t = n[0]
    if t in ("set", "dot"):
        return False
    if t == "cat":
        return all(nullable(x) for x in n[1])
    if t == "alt":
        return any(nullable(x) for x in n[1])
    if t == "grp":
        return nullable(n[1])
    if t == "rep":
        return n[2] == 0 or nullable(n[1])
    return True


def has_nullable_counted_loop(n):
    """AST contains {n,m} (m > n+1 or m > 2 or unbounded with n>=... ) whose operand is nullable -
    the shape compiled as a loop around its operand (known finding)."""
    t = n[0]
    if t == "rep":
        _, x, lo, hi, form = n
        if nullable(x) and form not in ("*", "+", "?"):
            return True
        if nullable(x) and form in ("*", "+"):
            return True
        return has_nullable_counted_loop(x)
    if t in ("cat", "alt"):
        return any(has_nullable_counted_loop(x) for x in n[1])
    if t == "grp":
        return has_nullable_counted_loop(n[1])
    return False


def _contains_split(n):
    t = n[0]
    if t in ("rep", "alt"):
        return True
    if t == "cat":
        return any(_contains_split(x) for x in n[1])
    if t == "grp":
        return _contains_split(n[1])
    return False


def has_counted_loop_over_split(n):
    """AST contains a counted repeat that re.c compiles as a REPEAT_START/END loop
    (end > start+1 or end > 2, {n,} included) around an operand that itself contains a
    quantifier or alternation, or that is nullable (known finding)."""
    t = n[0]
    if t == "rep":
        _, x, lo, hi, form = n
        if form not in ("*", "+", "?"):
            loop = hi is None or hi > lo + 1 or hi > 2
            if loop and (_contains_split(x) or nullable(x)):
                return True
        if form in ("*", "+") and nullable(x):
            return True
        return has_counted_loop_over_split(x)
    if t in ("cat", "alt"):
        return any(has_counted_loop_over_split(x) for x in n[1])
    if t == "grp":
        return has_counted_loop_over_split(n[1])
    return False


def _flat(n):
    if n[0] == "cat":
        out = []
        for x in n[1]:
            out.extend(_flat(x))
        return out
    return [n]


def has_chained_lazy_dot_range(n, lazy):
    """Top-level concatenation contains a lazy .{n,m}? with m > 200 (or unbounded) that has
    siblings on both sides: parser.c splits the expression there like a hex jump."""
    if not lazy:
        return False
    items = _flat(n)
    for i, x in enumerate(items):
        if 0 < i < len(items) - 1 and x[0] == "rep" and x[1][0] == "dot" and x[4] not in ("*", "+"):
            if x[3] is None or x[3] > 200 or x[2] > 200:
                return True
    return False


class Matcher:
    def __init__(self, buf, nocase=False, dotall=False, wide=False):
        self.buf = buf
        self.n = len(buf)
        self.full = (1 << (self.n + 1)) - 1
        self.nocase = nocase
        self.dotall = dotall
        self.wide = wide
        self._cache = {}
        z1 = 0
        for p in range(self.n - 1):
            if buf[p + 1] == 0:
                z1 |= 1 << p
        self.z1 = z1
        self._wb = None

    def cmask(self, positive, negated):
        key = (positive, negated)
        m = self._cache.get(key)
        if m is None:
            eff = fold_closure(positive) if self.nocase else positive
            m = 0
            for p, b in enumerate(self.buf):
                if (b in eff) != negated:
                    m |= 1 << p
            if self.wide:
                m &= self.z1
            self._cache[key] = m
        return m

    def isword_at(self, p):
        if self.wide:
            return 0 <= p and p + 1 < self.n and self.buf[p + 1] == 0 and self.buf[p] in WORD
        return 0 <= p < self.n and self.buf[p] in WORD

    def wbmask(self):
        if self._wb is None:
            m = 0
            cs = 2 if self.wide else 1
            for p in range(self.n + 1):
                if self.isword_at(p - cs) != self.isword_at(p):
                    m |= 1 << p
            self._wb = m
        return self._wb

    def step(self, n, X, fwd):
        if X == 0:
            return 0
        t = n[0]
        cs = 2 if self.wide else 1
        if t == "set" or t == "dot":
            if t == "dot":
                m = self.cmask(ALL if self.dotall else frozenset(ALL - {10}), False)
            else:
                m = self.cmask(n[1], n[2])
            if fwd:
                return ((X & m) << cs) & self.full
            return (X >> cs) & m
        if t == "cat":
            seq = n[1] if fwd else reversed(n[1])
            for x in seq:
                X = self.step(x, X, fwd)
                if X == 0:
                    return 0
            return X
        if t == "alt":
            r = 0
            for x in n[1]:
                r |= self.step(x, X, fwd)
            return r
        if t == "grp":
            return self.step(n[1], X, fwd)
        if t == "rep":
            _, x, lo, hi, _form = n
            cur = X
            for _ in range(lo):
                cur = self.step(x, cur, fwd)
                if cur == 0:
                    return 0
            R = cur
            if hi is None:
                frontier = cur
                while frontier:
                    nxt = self.step(x, frontier, fwd) & ~R
                    R |= nxt
                    frontier = nxt
            else:
                for _ in range(hi - lo):
                    cur = self.step(x, cur, fwd)
                    if cur == 0:
                        break
                    R |= cur
            return R
        if t == "bol":
            return X & 1
        if t == "eol":
            return X & (1 << self.n)
        if t == "wb":
            return X & self.wbmask()
        if t == "nwb":
            return X & (self.full & ~self.wbmask())
        raise ValueError(t)

    def ends(self, ast, start):
        return self.step(ast, 1 << start, True)

    def starts_any(self, ast):
        """positions s such that ast matches buf[s:e] for some e >= s"""
        return self.step(ast, self.full, False)

    def nonempty_lengths(self, ast, s):
        E = self.ends(ast, s) >> (s + 1)
        res = []
        ln = 1
        while E:
            if E & 1:
                res.append(ln)
            E >>= 1
            ln += 1
        return res


def bits(T):
    res = []
    while T:
        low = T & -T
        res.append(low.bit_length() - 1)
        T ^= low
    return res


# ---------------------------------------------------------------------------
# generator

def gen_class(rng, alpha):
    """A bracketed class; returns a set node."""
    items = []
    pos = set()
    neg = rng.random() < 0.3
    n = rng.randint(1, 4)
    for _ in range(n):
        r = rng.random()
        if r < 0.5:
            c = rng.choice(alpha)
            pos.add(c)
            items.append(cls_lit_src(c))
        elif r < 0.75:
            a = rng.choice(alpha)
            b = rng.choice(alpha)
            lo, hi = min(a, b), max(a, b)
            if hi - lo > 40:
                hi = lo + 3
            pos.update(range(lo, hi + 1))
            items.append(cls_lit_src(lo) + "-" + cls_lit_src(hi))
        else:
            k = rng.choice(["w", "W", "s", "S", "d", "D"])
            base = {"w": WORD, "s": SPACE, "d": DIGIT}[k.lower()]
            pos.update(base if k.islower() else (ALL - base))
            items.append("\\" + k)
    src = "[" + ("^" if neg else "") + "".join(items) + "]"
    return ("set", frozenset(pos), neg, src)


def cls_lit_src(c):
    if c in b"\\]^-[/":
        return "\\" + chr(c)
    if c == 10:
        return "\\n"
    if 32 < c < 127 and c != 0x22:
        return chr(c)
    return "\\x%02x" % c


def gen_char(rng, alpha, allow_dot=True):
    r = rng.random()
    if r < 0.62:
        return lit(rng.choice(alpha), rng)
    if r < 0.72 and allow_dot:
        return ("dot",)
    if r < 0.88:
        return gen_class(rng, alpha)
    k = rng.choice(["w", "W", "s", "S", "d", "D"])
    base = {"w": WORD, "s": SPACE, "d": DIGIT}[k.lower()]
    return ("set", base, k.isupper(), "\\" + k)


def gen_run(rng, alpha, n):
    return [lit(rng.choice(alpha), rng) for _ in range(n)]


QUANTS = [("*", 0, None), ("+", 1, None), ("?", 0, 1), ("n", 0, 0), ("n", 1, 1), ("n", 2, 2), ("n", 3, 3), ("n", 4, 4),
          ("n", 5, 5), ("n,", 0, None), ("n,", 1, None), ("n,", 2, None), ("n,", 3, None), (",m", 0, 1), (",m", 0, 2),
          (",m", 0, 3), (",m", 0, 5), ("nm", 1, 2), ("nm", 1, 3), ("nm", 2, 3), ("nm", 2, 4), ("nm", 2, 5), ("nm", 0, 2),
          ("nm", 3, 5), ("nm", 1, 1), ("nm", 4, 5), ("nm", 0, 4)]


def gen_node(rng, alpha, depth, budget, wide=False, allow_anchor=True):
    """Returns (node, atoms_used)."""
    r = rng.random()
    if depth <= 0 or budget <= 1 or r < 0.25:
        if rng.random() < 0.5 and budget >= 2:
            k = min(budget, rng.randint(2, 4))
            return ("cat", gen_run(rng, alpha, k)), k
        return gen_char(rng, alpha), 1
    if r < 0.55:
        # concatenation
        parts = []
        used = 0
        for _ in range(rng.randint(2, 4)):
            if used >= budget:
                break
            nd, u = gen_node(rng, alpha, depth - 1, budget - used, wide, allow_anchor)
            parts.append(nd)
            used += u
        if not parts:
            return gen_char(rng, alpha), 1
        return ("cat", parts), used
    if r < 0.75:
        # group with alternation
        parts = []
        used = 0
        for _ in range(rng.randint(2, 3)):
            if used >= budget:
                break
            nd, u = gen_node(rng, alpha, depth - 1, max(1, (budget - used) // 2), wide, allow_anchor)
            parts.append(nd)
            used += u
        if len(parts) < 2:
            return gen_char(rng, alpha), 1
        if rng.random() < 0.12:
            parts.append(("cat", []))   # empty right branch  (a|)
        return ("grp", ("alt", parts)), used
    # quantified
    form, lo, hi = rng.choice(QUANTS)
    inner, used = gen_node(rng, alpha, depth - 1, max(1, budget // 2), wide, allow_anchor)
    if inner[0] in ("cat", "alt", "rep") or (inner[0] == "cat" and len(inner[1]) != 1):
        inner = ("grp", inner)
    if inner[0] == "grp" and inner[1][0] == "rep":
        pass
    return ("rep", inner, lo, hi, form), used


def gen_regex(rng, wide=False):
    k = rng.random()
    if k < 0.42:
        alpha = [0x61, 0x62, 0x63]
    elif k < 0.46:
        # both ends of the byte range next to letters: the case tables have 256 entries
        alpha = [0x00, 0xFF, 0x61, 0x41, 0x01, 0xFE]
    elif k < 0.5:
        # first/last letters of both cases and their ASCII neighbours ('@', '[', '`', '{'): case-range boundaries
        alpha = rng.sample([0x7a, 0x5a, 0x61, 0x41, 0x79, 0x62], 3) + rng.sample([0x40, 0x5b, 0x60, 0x7b], 1)
    elif k < 0.7:
        alpha = [0x61, 0x62, 0x41, 0x5f, 0x20]
    elif k < 0.85:
        alpha = [0x61, 0x31, 0x2e, 0x0a, 0x42]
    else:
        alpha = [0x78, 0xe9, 0x2d, 0x61, 0x0a, 0x39]
    for _ in range(30):
        if rng.random() < 0.15:
            # family: prefix (X{a,b}){c,d} suffix  - counted loop around a variable-length body
            x = gen_char(rng, alpha, allow_dot=False)
            a = rng.choice([1, 1, 2])
            b = a + rng.choice([1, 2])
            c = rng.choice([0, 1, 2, 3])
            d = c + rng.choice([0, 1, 2, 3])
            if d == 0:
                d = 2
            inner = ("rep", x, a, b, "nm")
            outer = ("rep", ("grp", inner), c, d, "nm" if c != d else "n")
            pre = gen_run(rng, alpha, rng.choice([0, 1, 2, 3]))
            suf = gen_run(rng, alpha, rng.choice([0, 0, 1, 2]))
            node = ("cat", pre + [outer] + suf)
            used = 4
            if not pre and not suf and c == 0:
                continue
            break
        node, used = gen_node(rng, alpha, rng.randint(1, 4), rng.randint(2, 12), wide)
        if node[0] in ("set", "dot") or used < 2:
            continue
        if nullable(node) and rng.random() < 0.8:
            continue
        break
    parts = [node]
    if not wide:
        if rng.random() < 0.1:
            parts.insert(0, ("wb",) if rng.random() < 0.7 else ("nwb",))
        if rng.random() < 0.1:
            parts.append(("wb",) if rng.random() < 0.7 else ("nwb",))
    if rng.random() < 0.08:
        parts.insert(0, ("bol",))
    if rng.random() < 0.08:
        parts.append(("eol",))
    if len(parts) > 1:
        node = ("cat", parts)
    # top-level alternation must be grouped?  /a|b/ is legal; leave top-level alt as is
    return node, alpha


def sample(rng, n, alpha):
    t = n[0]
    if t == "set":
        _, pos, neg, _s = n
        cands = [c for c in alpha + [0x2e, 0x20, 0x39, 0x5f] if (c in pos) != neg]
        if cands:
            return bytes([rng.choice(cands)])
        for c in range(256):
            if (c in pos) != neg:
                return bytes([c])
        return b""
    if t == "dot":
        return bytes([rng.choice([c for c in alpha if c != 10] or [0x61])])
    if t == "cat":
        return b"".join(sample(rng, x, alpha) for x in n[1])
    if t == "alt":
        return sample(rng, rng.choice(n[1]), alpha)
    if t == "grp":
        return sample(rng, n[1], alpha)
    if t == "rep":
        _, x, lo, hi, _f = n
        k = rng.randint(lo, lo + 3) if hi is None else rng.randint(lo, hi)
        return b"".join(sample(rng, x, alpha) for _ in range(k))
    return b""


def gen_buffer(rng, node, alpha, wide=False, both=False, maxlen=600):
    from .m_text import widen
    parts = []
    nm = 0

    def enc(w):
        if wide and (not both or rng.random() < 0.6):
            return widen(w)
        return w

    def filler(k):
        return bytes(rng.choice(alpha + [0x20]) for _ in range(k))
    for _ in range(rng.randint(1, 6)):
        r = rng.random()
        w = sample(rng, node, alpha)
        if r < 0.45:
            parts.append(enc(w))
        elif r < 0.8 and w:
            p = bytearray(w)
            j = rng.randrange(len(p))
            op = rng.random()
            if op < 0.5:
                p[j] = rng.choice(alpha + [0x2e, 0x5a])
            elif op < 0.75:
                del p[j]
            else:
                p.insert(j, rng.choice(alpha))
            parts.append(enc(bytes(p)))
            nm += 1
        else:
            parts.append(enc(filler(rng.randint(1, 9))))
        sep = rng.random()
        if sep < 0.35:
            parts.append(enc(filler(rng.choice([1, 2, 5]))))
        elif sep < 0.5:
            parts.append(rng.choice([b" ", b"\n", b".", b"_", b"a", b"\x00", b"a\x00"]))
    buf = b"".join(parts)
    return buf[:maxlen], nm
