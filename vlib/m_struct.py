"""Structure-aware region discovery for C06: byte ranges of an executable that parsers interpret (headers, tables and
what the tables point to).  Deliberately tolerant: a malformed seed simply yields fewer regions."""
import struct


def _u16(d, o, be=False):
    return struct.unpack_from(">H" if be else "<H", d, o)[0] if 0 <= o and o + 2 <= len(d) else None


def _u32(d, o, be=False):
    return struct.unpack_from(">I" if be else "<I", d, o)[0] if 0 <= o and o + 4 <= len(d) else None


def _u64(d, o, be=False):
    return struct.unpack_from(">Q" if be else "<Q", d, o)[0] if 0 <= o and o + 8 <= len(d) else None


def _add(regs, d, off, n, tag):
    if off is None or n is None or off < 0 or off >= len(d) or n <= 0:
        return
    regs.append((off, min(n, len(d) - off), tag))


def pe_regions(d):
    regs = []
    lfanew = _u32(d, 0x3c)
    if lfanew is None or _u32(d, lfanew) != 0x4550:
        return regs
    nsec = _u16(d, lfanew + 6) or 0
    optsz = _u16(d, lfanew + 20) or 0
    magic = _u16(d, lfanew + 24)
    opt = lfanew + 24
    sect = opt + optsz
    nsec = min(nsec, 96)
    _add(regs, d, lfanew, 24 + optsz + 40 * nsec, "pe.headers")
    secs = []
    for i in range(nsec):
        o = sect + 40 * i
        if o + 40 > len(d):
            break
        vsz, va, rsz, raw = struct.unpack_from("<IIII", d, o + 8)
        secs.append((va, max(vsz, rsz), raw))
    pe64 = magic == 0x20b
    base = (_u64(d, opt + 24) if pe64 else _u32(d, opt + 28)) or 0
    ddir = opt + (112 if pe64 else 96)

    def rva2off(rva):
        for va, sz, raw in secs:
            if va <= rva < va + sz:
                return raw + (rva - va)
        return rva if secs and rva < min(s[0] for s in secs) else None

    def chase(off, n, depth, tag):
        if off is None or off < 0 or off >= len(d):
            return
        _add(regs, d, off, n, tag)
        if depth >= 3:
            return
        for o in range(off, min(off + n, len(d) - 3), 4):
            w = _u32(d, o)
            if not w:
                continue
            for cand in (w, w - base if base and w >= base else None, w & 0x7FFFFFFF if w & 0x80000000 else None):
                if cand is None or cand == 0:
                    continue
                t = rva2off(cand)
                if t is not None and 0 < t < len(d) and cand < (1 << 30):
                    chase(t, (48, 24)[depth - 1], depth + 1, tag + ">")
                    break

    for i in range(16):
        rva, size = _u32(d, ddir + 8 * i), _u32(d, ddir + 8 * i + 4)
        if not rva:
            continue
        off = rva if i == 4 else rva2off(rva)
        if off is None:
            continue
        if i == 14:
            _add(regs, d, off, 72, "pe.dir14.cli")
            md = rva2off(_u32(d, off + 8) or 0)
            if md is not None and _u32(d, md) == 0x424A5342:
                vlen = _u32(d, md + 12) or 0
                sh = md + 16 + vlen
                _add(regs, d, md, 16 + min(vlen, 64) + 4, "dotnet.root")
                ns = _u16(d, sh + 2) or 0
                o = sh + 4
                for _ in range(min(ns, 8)):
                    so, ss = _u32(d, o), _u32(d, o + 4)
                    if so is None:
                        break
                    name = d[o + 8:o + 40].split(b"\0")[0]
                    _add(regs, d, o, 8 + ((len(name) + 4) & ~3), "dotnet.streamhdr")
                    _add(regs, d, md + so, 160 if name in (b"#~", b"#-") else 32, "dotnet.stream." + name.decode("latin1"))
                    o += 8 + ((len(name) + 4) & ~3)
            continue
        chase(off, min(max(size or 0, 40), 128), 1, "pe.dir%d" % i)
    return regs


def elf_regions(d):
    regs = []
    if len(d) < 0x34:
        _add(regs, d, 0, len(d), "elf.header")
        return regs
    c64 = d[4] == 2
    be = d[5] == 2
    _add(regs, d, 0, 64 if c64 else 52, "elf.header")
    if c64:
        phoff, shoff = _u64(d, 32, be), _u64(d, 40, be)
        phentsize, phnum, shentsize, shnum = (_u16(d, o, be) for o in (54, 56, 58, 60))
    else:
        phoff, shoff = _u32(d, 28, be), _u32(d, 32, be)
        phentsize, phnum, shentsize, shnum = (_u16(d, o, be) for o in (42, 44, 46, 48))
    if None in (phoff, shoff, phentsize, phnum, shentsize, shnum):
        return regs
    phnum, shnum = min(phnum, 64), min(shnum, 96)
    _add(regs, d, phoff, phentsize * phnum, "elf.phdr")
    _add(regs, d, shoff, shentsize * shnum, "elf.shdr")
    for i in range(shnum):
        o = shoff + i * shentsize
        typ = _u32(d, o + 4, be)
        off = _u64(d, o + 24, be) if c64 else _u32(d, o + 16, be)
        if typ in (2, 3, 6, 11) and off:  # SYMTAB, STRTAB, DYNAMIC, DYNSYM
            _add(regs, d, off, 96, "elf.sect%d" % typ)
    for i in range(phnum):
        o = phoff + i * phentsize
        typ = _u32(d, o, be)
        off = _u64(d, o + 8, be) if c64 else _u32(d, o + 4, be)
        if typ == 2 and off:
            _add(regs, d, off, 160, "elf.pt_dynamic")
    return regs


def macho_regions(d, base=0, depth=0):
    regs = []
    m = d[base:base + 4]
    if m in (b"\xca\xfe\xba\xbe", b"\xbe\xba\xfe\xca", b"\xca\xfe\xba\xbf", b"\xbf\xba\xfe\xca") and depth == 0:
        n = min(_u32(d, 4, True) or 0, 8)
        wide = m[3] in (0xbf,) or m[0] == 0xbf
        _add(regs, d, 0, 8 + n * (32 if wide else 20), "macho.fat")
        for i in range(n):
            off = _u64(d, 8 + i * 32 + 8, True) if wide else _u32(d, 8 + i * 20 + 8, True)
            if off and off < len(d):
                regs += macho_regions(d, off, 1)
        return regs
    if m in (b"\xce\xfa\xed\xfe", b"\xcf\xfa\xed\xfe", b"\xfe\xed\xfa\xce", b"\xfe\xed\xfa\xcf"):
        be = m[0] == 0xfe
        hdr = 32 if 0xcf in (m[0], m[3]) else 28
        sz = _u32(d, base + 20, be) or 0
        _add(regs, d, base, hdr + min(sz, 2048 if depth == 0 else 768), "macho.cmds")
    return regs


def dex_regions(d):
    regs = []
    _add(regs, d, 0, 0x70, "dex.header")
    mo = _u32(d, 0x34)
    if mo:
        n = min(_u32(d, mo) or 0, 20)
        _add(regs, d, mo, 4 + 12 * n, "dex.map")
    for o in (0x3c, 0x44, 0x4c, 0x54, 0x5c, 0x64, 0x6c):
        t = _u32(d, o)
        if t:
            _add(regs, d, t, 48, "dex.table@%x" % o)
    # first class_data / string data items
    t = _u32(d, 0x64)
    if t:
        cd = _u32(d, t + 24)
        if cd:
            _add(regs, d, cd, 32, "dex.class_data")
    t = _u32(d, 0x3c)
    if t:
        s0 = _u32(d, t)
        if s0:
            _add(regs, d, s0, 16, "dex.string0")
    return regs


def regions(d):
    if d[:2] == b"MZ":
        r = [(0, min(64, len(d)), "mz")] + pe_regions(d)
    elif d[:4] == b"\x7fELF":
        r = elf_regions(d)
    elif d[:4] == b"dex\n":
        r = dex_regions(d)
    else:
        r = macho_regions(d)
    return r


def words(d, cap=None):
    """4-byte-aligned offsets (relative to each region start) covered by the regions, de-duplicated, with a tag"""
    seen = {}
    for off, n, tag in regions(d):
        for o in range(off, off + n, 4):
            if o + 4 <= len(d) and o not in seen:
                seen[o] = tag
    return sorted(seen.items())
