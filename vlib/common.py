"""Verdict discipline, known-findings matching, evidence files."""
import hashlib
import json
import os
import random
import sys
import time

VERIF = os.path.dirname(os.path.dirname(os.path.abspath(__file__)))
# VERIF_OUT redirects evidence and replays (used when a check is pointed at a scratch copy through VERIF_REPO, so that
# trial runs on a deliberately broken tree never overwrite the evidence of the real one)
REPO_PREFIX = os.environ.get("VERIF_REPO", "/repo").rstrip("/") + "/"
EVID = os.path.join(os.environ.get("VERIF_OUT", VERIF), "evidence")
REPLAYS = os.path.join(os.environ.get("VERIF_OUT", VERIF), "replays")
KNOWN = os.path.join(VERIF, "known_findings.json")

EXIT_OK, EXIT_VIOLATION, EXIT_HARNESS = 0, 1, 2


def load_known():
    try:
        with open(KNOWN) as f:
            return json.load(f).get("findings", [])
    except (OSError, ValueError):
        return []


class HarnessFailure(Exception):
    pass


class Check:
    """Base class: one instance per run of one property's check."""
    def __init__(self, pid, tier="quick", seed=0, level="exploration"):
        self.pid = pid
        self.level = level
        self.tier = tier
        self.seed = seed
        self.rng = random.Random((hash_str(self.pid) << 20) ^ seed)
        self.t0 = time.time()
        self.violations = []          # (key, path)
        self.known_hit = {}           # key -> count
        self.inconclusive = []        # descriptions
        self.known = {k["key"]: k for k in load_known() if k.get("property") == self.pid and k.get("status") == "known"}
        self._seen_keys = {}
        self.max_reports = int(os.environ.get("VERIF_MAXREP", "25"))
        self.counters = {}
        # replays belong to one run: a VIOLATION line always names a file written by the run that printed it
        import shutil
        shutil.rmtree(os.path.join(REPLAYS, self.pid), ignore_errors=True)

    # -- verdicts -----------------------------------------------------------
    def count(self, name, n=1):
        self.counters[name] = self.counters.get(name, 0) + n

    def violation(self, key, witness):
        """Route a violation through known-findings matching.
        key: stable identifier of *what fails* (finding class); witness: JSON-able dict."""
        if key in self.known:
            self.known_hit[key] = self.known_hit.get(key, 0) + 1
            if self.known_hit[key] == 1:
                self.known[key]["_sample"] = witness
            return False
        n = self._seen_keys.get(key, 0)
        self._seen_keys[key] = n + 1
        # the first witness of every distinct key is always kept (up to 300 keys); further ones are limited
        if (n > 0 and len(self.violations) >= self.max_reports) or n >= 5 or len(self._seen_keys) > 300:
            self.count("violations_suppressed_duplicates")
            self.violations.append((key, None))
            return True
        os.makedirs(os.path.join(REPLAYS, self.pid), exist_ok=True)
        blob = json.dumps(witness, sort_keys=True, default=str)
        h = hashlib.sha256(blob.encode()).hexdigest()[:16]
        path = os.path.join(REPLAYS, self.pid, "%s_%s.json" % (safe(key)[:40], h))
        with open(path, "w") as f:
            json.dump({"property": self.pid, "key": key, "seed": self.seed, "tier": self.tier, "witness": witness},
                      f, indent=1, default=str)
        self.violations.append((key, path))
        print("VIOLATION property=%s replay=%s" % (self.pid, path))
        print("  what: %s" % key)
        sys.stdout.flush()
        return True

    def inconc(self, what):
        self.inconclusive.append(what)

    # -- evidence -----------------------------------------------------------
    def finish(self, evaluations, distinct_nontrivial, rule, samples, extra=None, assumptions=None, min_nontrivial=2,
               exhaustive=None):
        from . import harness as _h
        for w in _h.FD_LEAKS[:20]:
            # every yrh case is bracketed by a count of /proc/self/fd: whatever the property, a library call that keeps a
            # descriptor open after all its objects were destroyed is a leak
            self.violation("descriptor-leak", w)
        self.counters["cases_with_descriptor_delta"] = len(_h.FD_LEAKS)
        for w in _h.API_ISSUES[:20]:
            self.violation("api-contract:" + w["what"], w)
        cov = {
            "evaluations": int(evaluations),
            "distinct_nontrivial": int(distinct_nontrivial),
            "rule": rule,
            "samples": samples[:8],
            "known_findings_hit": {k: v for k, v in self.known_hit.items()},
            "inconclusive": len(self.inconclusive),
            "inconclusive_samples": self.inconclusive[:5],
            "counters": self.counters,
            "violation_keys": dict(sorted(self._seen_keys.items())),
        }
        if exhaustive is not None:
            cov["exhaustive"] = bool(exhaustive)
        if extra:
            cov.update(extra)
        ev = {
            "property_id": self.pid,
            "tier": self.tier,
            "seed": int(self.seed),
            "level": self.level,
            "coverage": cov,
            "assumptions": assumptions or [],
            "wall_s": round(time.time() - self.t0, 2),
            "violations": len(self.violations),
        }
        os.makedirs(EVID, exist_ok=True)
        with open(os.path.join(EVID, self.pid + ".json"), "w") as f:
            json.dump(ev, f, indent=1, default=str)
        for k, n in sorted(self.known_hit.items()):
            print("KNOWN-FINDING: property=%s %s (%d cases this run; %s)" % (self.pid, k, n, self.known[k].get("what", "")[:140]))
        print("%s %s seed=%d: %d evaluations, %d distinct non-trivial, %d violations, %d known-finding hits, "
              "%d inconclusive, %.1fs" % (self.pid, self.tier, self.seed, evaluations, distinct_nontrivial,
                                         len(self.violations), sum(self.known_hit.values()), len(self.inconclusive),
                                         time.time() - self.t0))
        if self.violations:
            return EXIT_VIOLATION
        if distinct_nontrivial < min_nontrivial or evaluations < 1:
            print("HARNESS: run observed too little (%d non-trivial cases) - inconclusive" % distinct_nontrivial)
            return EXIT_HARNESS
        return EXIT_OK


def hash_str(s):
    return int(hashlib.sha256(s.encode()).hexdigest()[:8], 16)


def safe(s):
    return "".join(c if c.isalnum() or c in "-_." else "_" for c in s)


def sanitizer_key(stderr):
    """A stable key for a sanitizer report: kind + innermost libyara frames (symbols only)."""
    import re
    kind = "crash"
    m = re.search(r"ERROR: (AddressSanitizer|LeakSanitizer): ([\w-]+)", stderr)
    if m:
        kind = m.group(2)
    else:
        m = re.search(r"runtime error: ([^\n]{0,80})", stderr)
        if m:
            kind = "ubsan:" + re.sub(r"[0-9]+", "N", m.group(1))[:50]
        elif "Assertion" in stderr:
            kind = "assert"
    frames = []
    for m in re.finditer(r"#\d+ 0x[0-9a-f]+ in (\S+) (\S+)", stderr):
        fn, loc = m.group(1), m.group(2)
        if (REPO_PREFIX in loc) or "libyara" in loc:
            frames.append(fn)
        if len(frames) >= 3:
            break
    return kind + "@" + ">".join(frames)


def leak_keys(stderr):
    """One key per leaked allocation stack in an LSan report."""
    import re
    keys = []
    blocks = [b for b in re.split(r"\n(?=(?:Direct|Indirect) leak of)", stderr) if b.startswith(("Direct leak", "Indirect leak"))]
    if any(b.startswith("Direct") for b in blocks):
        blocks = [b for b in blocks if b.startswith("Direct")]
    for block in blocks:
        frames = []
        for m in re.finditer(r"#\d+ 0x[0-9a-f]+ in (\S+) (\S+)", block):
            fn, loc = m.group(1), m.group(2)
            if ((REPO_PREFIX in loc) or loc.startswith("libyara/")) and fn not in ("yr_malloc", "yr_calloc", "yr_realloc", "yr_strdup", "yr_strndup"):
                frames.append(fn)
            if len(frames) >= 3:
                break
        keys.append("leak@" + ">".join(frames))
    return sorted(set(keys)) or ["leak@?"]


def parse_args(argv):
    import argparse
    ap = argparse.ArgumentParser()
    ap.add_argument("--tier", default=os.environ.get("VERIF_TIER", "quick"), choices=["quick", "thorough"])
    ap.add_argument("--seed", type=int, default=int(os.environ.get("VERIF_SEED", "0") or 0))
    ap.add_argument("--replay", default=None)
    ap.add_argument("--scale", type=float, default=float(os.environ.get("VERIF_SCALE", "1") or 1))
    return ap.parse_args(argv)
