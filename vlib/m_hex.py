"""Reference model + generator for hex strings (C02).
Pattern AST: list of nodes; node =
  ("b", value, mask, neg)   byte / masked byte / negated (masked) byte; mask 0 = ??
  ("j", lo, hi)             jump, hi None = unbounded
  ("a", [seq, seq, ...])    alternation of sequences
Matching uses position sets encoded as Python ints (bit p = position p), no backtracking."""
import random

THRESH = 200


def render(seq, rng=None):
    out = []
    for n in seq:
        if n[0] == "b":
            _, v, m, neg = n
            if m == 0:
                s = "??"
            else:
                hi = "%X" % (v >> 4) if m & 0xF0 else "?"
                lo = "%X" % (v & 15) if m & 0x0F else "?"
                s = hi + lo
                if rng and rng.random() < 0.5:
                    s = s.lower()
            out.append(("~" if neg else "") + s)
        elif n[0] == "j":
            _, lo, hi = n
            if hi is None:
                out.append("[-]" if lo == 0 and (rng is None or rng.random() < 0.5) else "[%d-]" % lo)
            elif lo == hi:
                out.append("[%d]" % lo if (rng is None or rng.random() < 0.7) else "[%d-%d]" % (lo, hi))
            else:
                out.append("[%d-%d]" % (lo, hi))
        else:
            out.append("( " + " | ".join(render(s, rng) for s in n[1]) + " )")
    return " ".join(out)


def byte_ok(n, b):
    _, v, m, neg = n
    return ((b & m) == (v & m)) != neg


class Matcher:
    def __init__(self, buf):
        self.buf = buf
        self.n = len(buf)
        self.full = (1 << (self.n + 1)) - 1
        self._masks = {}

    def bmask(self, node):
        k = node[1:]
        m = self._masks.get(k)
        if m is None:
            m = 0
            _, v, mk, neg = node
            for p, b in enumerate(self.buf):
                if ((b & mk) == (v & mk)) != neg:
                    m |= 1 << p
            self._masks[k] = m
        return m

    @staticmethod
    def _smear_right(T, k):
        """OR of T >> d for d in 0..k"""
        res = T
        done = 0
        while done < k:
            step = min(done + 1, k - done)
            res |= res >> step
            done += step
        return res

    def _smear_left(self, T, k):
        res = T
        done = 0
        while done < k:
            step = min(done + 1, k - done)
            res |= res << step
            done += step
        return res & self.full

    def starts(self, seq, T):
        """positions s such that seq matches buf[s:e] for some e in T"""
        for node in reversed(seq):
            if T == 0:
                return 0
            if node[0] == "b":
                T = (T >> 1) & self.bmask(node)
            elif node[0] == "j":
                _, lo, hi = node
                if hi is None:
                    hi = self.n
                hi = min(hi, self.n)
                if lo > self.n:
                    return 0
                T = self._smear_right(T >> lo, hi - lo)
            else:
                r = 0
                for br in node[1]:
                    r |= self.starts(br, T)
                T = r
        return T

    def ends(self, seq, S):
        for node in seq:
            if S == 0:
                return 0
            if node[0] == "b":
                S = ((S & self.bmask(node)) << 1) & self.full
            elif node[0] == "j":
                _, lo, hi = node
                if hi is None:
                    hi = self.n
                hi = min(hi, self.n)
                if lo > self.n:
                    return 0
                S = self._smear_left((S << lo) & self.full, hi - lo)
            else:
                r = 0
                for br in node[1]:
                    r |= self.ends(br, S)
                S = r
        return S

    def match_offsets(self, seq):
        T = self.starts(seq, self.full)
        return bits(T)

    def valid_length(self, seq, off, length):
        if off < 0 or off > self.n or length < 0 or off + length > self.n:
            return False
        E = self.ends(seq, 1 << off)
        return bool((E >> (off + length)) & 1)


def bits(T):
    res = []
    p = 0
    while T:
        low = T & -T
        i = low.bit_length() - 1
        res.append(i)
        T ^= low
    return res


# ---------------------------------------------------------------------------
# structure helpers

def seq_minmax(seq):
    lo = hi = 0
    for n in seq:
        if n[0] == "b":
            lo += 1
            hi += 1
        elif n[0] == "j":
            lo += n[1]
            hi = None if (hi is None or n[2] is None) else hi + n[2]
        else:
            ml = [seq_minmax(b) for b in n[1]]
            lo += min(m[0] for m in ml)
            if hi is not None:
                if any(m[1] is None for m in ml):
                    hi = None
                else:
                    hi += max(m[1] for m in ml)
    return lo, hi


def pieces(seq):
    """Split the top-level sequence the way the engine chains it: at jumps whose bound exceeds THRESH."""
    res = [[]]
    gaps = []
    for i, n in enumerate(seq):
        if n[0] == "j" and 0 < i < len(seq) - 1 and (n[2] is None or n[1] > THRESH or n[2] > THRESH):
            res.append([])
            gaps.append(n)
        else:
            res[-1].append(n)
    return res, gaps


def is_chained(seq):
    return len(pieces(seq)[0]) > 1


def has_variable_piece(seq):
    ps, _ = pieces(seq)
    for p in ps:
        lo, hi = seq_minmax(p)
        if hi is None or lo != hi:
            return True
    return False


def has_alt(seq):
    return any(n[0] == "a" for n in seq)


# ---------------------------------------------------------------------------
# generator

JUMPS_SMALL = [(1, 1), (2, 2), (3, 3), (0, 1), (0, 2), (1, 3), (2, 7), (0, 0), (5, 5), (7, 7), (1, 16), (30, 40)]
JUMPS_BIG = [(199, 199), (200, 200), (201, 201), (202, 202), (256, 256), (199, 200), (200, 201), (190, 210), (0, 201),
             (250, 251), (300, 400), (0, None), (1, None), (3, None), (201, None), (100, 300)]


def gen_byte(rng, alpha):
    r = rng.random()
    v = rng.choice(alpha)
    if r < 0.62:
        return ("b", v, 0xFF, False)
    if r < 0.72:
        return ("b", 0, 0, False)
    if r < 0.82:
        return ("b", v & 0xF0, 0xF0, False)
    if r < 0.9:
        return ("b", v & 0x0F, 0x0F, False)
    if r < 0.96:
        return ("b", v, 0xFF, True)
    m = rng.choice([0xF0, 0x0F])
    return ("b", v & m, m, True)


def gen_fixed_run(rng, alpha, n):
    return [gen_byte(rng, alpha) for _ in range(n)]


def gen_alt(rng, alpha, depth):
    nb = rng.choice([2, 2, 3])
    branches = []
    for _ in range(nb):
        branches.append(gen_tokens(rng, alpha, rng.randint(1, 4), depth + 1, inside_or=True))
    return ("a", branches)


def gen_tokens(rng, alpha, ntok, depth=0, inside_or=False, allow_big=False, variable_ok=True):
    """tokens: first and last are byte/alt; jumps only in between."""
    seq = []
    for i in range(ntok):
        first_last = i == 0 or i == ntok - 1
        r = rng.random()
        if not first_last and r < 0.22 and (not seq or seq[-1][0] != "j"):
            if allow_big and rng.random() < 0.5:
                lo, hi = rng.choice(JUMPS_BIG)
            else:
                lo, hi = rng.choice(JUMPS_SMALL)
                if not variable_ok:
                    hi = lo
            if inside_or:
                lo, hi = rng.choice([(1, 1), (2, 2), (0, 2), (1, 3), (2, 4), (200, 200), (3, 3)])
                if not variable_ok:
                    hi = lo
            if lo == hi == 0:
                lo, hi = 0, 1
            seq.append(("j", lo, hi))
        elif r < 0.3 and depth < 2 and variable_ok:
            seq.append(gen_alt(rng, alpha, depth))
        else:
            seq.append(gen_byte(rng, alpha))
    # first/last must not be a jump (guaranteed) ; make sure first/last tokens are not pure wildcards too often
    return seq


def gen_pattern(rng):
    """A hex pattern as accepted by hex_grammar.y. Returns seq."""
    k = rng.random()
    if k < 0.3:
        alpha = [rng.randrange(256) for _ in range(rng.choice([2, 3, 4]))]
    elif k < 0.6:
        alpha = [0x00, 0x20, 0x90, 0xCC, 0xFF, 0x41, 0x61, 0x10, 0x1F]
    else:
        alpha = list(range(256))
    style = rng.random()
    if style < 0.35:
        # unchained
        seq = gen_tokens(rng, alpha, rng.randint(2, 14))
    else:
        # chained: 2..3 pieces joined by big jumps
        npieces = rng.choice([2, 2, 2, 3])
        variable_ok = rng.random() < 0.35   # most chains have fixed-length pieces
        seq = []
        for p in range(npieces):
            piece = gen_tokens(rng, alpha, rng.randint(1, 7), variable_ok=variable_ok)
            # piece must start and end with a non-jump token: guaranteed by gen_tokens
            if p > 0:
                lo, hi = rng.choice(JUMPS_BIG)
                while not (hi is None or lo > THRESH or hi > THRESH):
                    lo, hi = rng.choice(JUMPS_BIG)
                seq.append(("j", lo, hi))
            seq.extend(piece)
    # at least two fully specified bytes somewhere so that an atom exists
    nfixed = sum(1 for n in seq if n[0] == "b" and n[2] == 0xFF and not n[3])
    if nfixed < 2:
        seq = [("b", rng.choice(alpha), 0xFF, False), ("b", rng.choice(alpha), 0xFF, False)] + seq
    # first/last token must be byte or alt
    if seq[0][0] == "j":
        seq.insert(0, gen_byte(rng, alpha))
    if seq[-1][0] == "j":
        seq.append(gen_byte(rng, alpha))
    return seq, alpha


def sample(rng, seq, alpha, mode="ok"):
    """A byte string satisfying seq. mode 'ok'; jump lengths are chosen at the bounds."""
    out = bytearray()
    for n in seq:
        if n[0] == "b":
            for _ in range(50):
                b = rng.choice(alpha) if rng.random() < 0.7 else rng.randrange(256)
                if byte_ok(n, b):
                    break
            else:
                b = next(x for x in range(256) if byte_ok(n, x))
            out.append(b)
        elif n[0] == "j":
            _, lo, hi = n
            if hi is None:
                ln = rng.choice([lo, lo + 1, lo + 7, lo + 250])
            else:
                ln = rng.choice([lo, hi, (lo + hi) // 2])
            out.extend(rng.choice(alpha) if rng.random() < 0.6 else rng.randrange(256) for _ in range(ln))
        else:
            out.extend(sample(rng, rng.choice(n[1]), alpha))
    return bytes(out)


def near_miss(rng, seq, alpha):
    """Like sample() but one top-level element is broken: a gap one below/above its bounds or a wrong byte."""
    idxs = list(range(len(seq)))
    j = rng.choice(idxs)
    out = bytearray()
    for i, n in enumerate(seq):
        if i != j:
            out.extend(sample(rng, [n], alpha))
            continue
        if n[0] == "j":
            _, lo, hi = n
            if hi is None or (rng.random() < 0.5 and lo > 0):
                ln = max(0, lo - 1)
            else:
                ln = hi + 1
            out.extend(rng.choice(alpha) for _ in range(ln))
        elif n[0] == "b":
            cands = [x for x in alpha + [rng.randrange(256)] if not byte_ok(n, x)]
            if cands:
                out.append(rng.choice(cands))
            else:
                out.append(sample(rng, [n], alpha)[0])
        else:
            out.extend(sample(rng, [n], alpha))
    return bytes(out)


def gen_buffer(rng, seq, alpha, maxlen=4096):
    parts = []
    ps, gaps = pieces(seq)

    def filler(n):
        return bytes(rng.choice(alpha) if rng.random() < 0.8 else rng.randrange(256) for _ in range(n))
    nparts = rng.randint(1, 4)
    nm = 0
    for _ in range(nparts):
        r = rng.random()
        if r < 0.4:
            parts.append(sample(rng, seq, alpha))
        elif r < 0.7:
            parts.append(near_miss(rng, seq, alpha))
            nm += 1
        elif len(ps) > 1:
            # several heads for one tail / several tails for one head, gaps around the bounds
            gi = rng.randrange(len(gaps))
            head = ps[gi]
            tail = ps[gi + 1]
            _, lo, hi = gaps[gi]
            if hi is None:
                hi = lo + 40
            pre = b"".join(sample(rng, p, alpha) + sample(rng, [g], alpha) for p, g in zip(ps[:gi], gaps[:gi]))
            post = b"".join(sample(rng, [g], alpha) + sample(rng, p, alpha) for p, g in zip(ps[gi + 2:], gaps[gi + 1:]))
            if rng.random() < 0.5:
                # heads h1 h2 h3 then tail: distances differ
                hs = [sample(rng, head, alpha) for _ in range(rng.randint(2, 3))]
                spacer = [filler(rng.choice([0, 1, 2, 5])) for _ in hs]
                body = b"".join(h + s for h, s in zip(hs, spacer))
                gap = rng.choice([lo - 1, lo, lo + 1, hi - 1, hi, hi + 1])
                gap = max(0, gap - len(spacer[-1]))
                parts.append(pre + body + filler(gap) + sample(rng, tail, alpha) + post)
            else:
                h = sample(rng, head, alpha)
                gap = max(0, rng.choice([lo - 1, lo, lo + 1]))
                ts = [sample(rng, tail, alpha) for _ in range(rng.randint(2, 3))]
                body = b"".join(t + filler(rng.choice([0, 1, 3, max(0, hi - lo - len(t))])) for t in ts)
                parts.append(pre + h + filler(gap) + body + post)
            nm += 1
        else:
            parts.append(filler(rng.randint(1, 40)))
        if rng.random() < 0.6:
            parts.append(filler(rng.choice([0, 1, 2, 9, 33])))
    buf = b"".join(parts)
    if rng.random() < 0.3:
        buf = filler(rng.randint(1, 20)) + buf
    return buf[:maxlen], nm
