"""C07 - compiling arbitrary text never crashes and every failure is diagnosed.
Oracle: the diagnosis contract (non-zero error count <=> an error-level callback with a message and a line),
sanitizers (ASan+UBSan+LSan), CPU watchdog, and a sentinel compile+scan after every batch.
Workload: grammar-position sweep (truncation / deletion / duplication / swap of every token of valid seed
rules), size stressors, and coverage-guided libFuzzer runs (clang) seeded with the same corpus."""
import hashlib
import multiprocessing
import os
import random
import re
import shutil
import subprocess

from vlib import build, common, harness, m_cond, m_hex, m_re, m_text, rulegen
from vlib.harness import Case, hx

PID = "C07"
SENTINEL = 'rule sent { strings: $a = "needle" condition: $a and filesize > 3 }\n'

HAND_SEEDS = [
    'import "pe"\nimport "math"\nglobal private rule a : t1 t2 { meta: m1 = "x" m2 = 5 m3 = true strings: $a = "abc" wide ascii nocase fullword '
    '$b = { 01 ?? 0? [2-4] ( 02 | 03 04 ) [1-] 05 } $c = /a(b|c)+d{2,3}[^x-z]\\w/is private $d = "x" xor(1-0x20) $e = "yz" base64("ABCDEFGHIJKLMNOPQRSTUVWXYZabcdefghijklmnopqrstuvwxyz0123456789-_") '
    'condition: ($a or #b > 2) and @c[1] < filesize and for any i in (1..#a) : (@a[i] + !a[i] > 3) and pe.number_of_sections >= 0 }\n',
    'rule b { strings: $s1 = "one" $s2 = "two" $ = "anon" condition: 2 of ($s*) or all of them or any of ($s1, $s2) at 0 or 50% of them or none of them in (0..10) }\n',
    'rule c { condition: for all k, v in pe.version_info : (k == "x" and v contains "y") or for any s in ("a", "b") : (s == "a") or for 2 i in (1, 2, 3) : (i > 1) }\n',
    'rule d { condition: uint16(0) == 0x5A4D and uint32be(4) & 0xFF != ~1 >> 2 and -1 \\ 3 % 2 == (1 << 3 | 4 ^ 5) and 1.5 + 2 < 4.0 and not defined int8(100) }\n',
    'rule e { condition: "abc" contains "b" and "abc" icontains "B" and "abc" startswith "a" and "abc" iendswith "C" and "x" iequals "X" and "abc" matches /a.c/i }\n',
    'include "inc_ok.yar"\nrule f { condition: inc_rule and 1 of (inc_*) }\n',
    'rule g { strings: $a = "a" condition: for any of them : ( $ at 0 and # > 0 and @ < 10 and ! == 1 and @[1] == 0 ) }\n',
    'rule h { condition: ext_i == 3 and ext_s == "v" and ext_b and ext_f < 2.5 and filesize > 1KB and filesize < 2MB and entrypoint >= 0 }\n',
    '/* comment */ rule i // line comment\n{ condition: true }\nrule j { condition: i and not false }\n',
]
INCLUDES = {"inc_ok.yar": 'rule inc_rule { condition: true }\nrule inc_2 { condition: false }\n',
            "inc_bad.yar": 'rule inc_bad { strings: $a = /(/ condition: $a }\n',
            "inc_loop.yar": 'include "inc_loop.yar"\n',
            "inc_nested.yar": 'include "inc_ok.yar"\ninclude "inc_bad.yar"\n'}

TOKEN_RE = re.compile(r'''"(?:\\.|[^"\\])*"|/(?:\\.|[^/\\\n])+/[is]*|\{[0-9a-fA-F?\s\[\]\-\(\)\|~]*\}|0x[0-9a-fA-F]+|\d+(?:\.\d+)?(?:KB|MB)?|[\$#@!]?[A-Za-z_][A-Za-z0-9_]*\*?|\.\.|<<|>>|==|!=|<=|>=|[^\s]''', re.S)
OTHER_TOKENS = ["rule", "condition", ":", "{", "}", "(", ")", "and", "of", "for", "in", "$a", "#a", '"s"', "/r/", "{ 01 }", "1", "..", "==",
                "strings", "meta", "import", "include", "private", "global", "them", "all", "any", "at", "not", "matches", "[", "]", ",", "=",
                "wide", "xor", "base64", "%", "\\", "~", "-", "filesize", "0x", "1.", "\"", "/", "/*", "//", "\x00", "\xff", "defined"]


def seeds(rng):
    out = list(HAND_SEEDS)
    for _ in range(6):
        d = m_text.gen_decl(rng)
        out.append("rule t { strings: %s condition: $a }\n" % d.render("$a", rng))
    for _ in range(6):
        seq, _a = m_hex.gen_pattern(rng)
        out.append("rule x { strings: $h = { %s } condition: $h }\n" % m_hex.render(seq, rng))
    for _ in range(6):
        ast, _a = m_re.gen_regex(rng)
        out.append("rule r { strings: $r = /%s/ condition: $r }\n" % m_re.render(ast, rng.random() < 0.3))
    for _ in range(8):
        g = m_cond.Gen(rng, ["_a", "_b"], {"ext_i": ("i", 3)}, [], 50)
        c = g.bool_expr(4)
        out.append('rule cnd { strings: $_a = "ab" $_b = "cd" condition: %s }\n' % m_cond.render(c))
    vocab = rulegen.make_vocab(rng)
    for k in range(6):
        out.append(rulegen.gen_rule(rng, vocab, "g%d" % k, "default", []).text + "\n")
    return out


def sweep_inputs(rng, seed_texts, per_seed_cap):
    inputs = []
    for text in seed_texts:
        toks = [(m.start(), m.end()) for m in TOKEN_RE.finditer(text)]
        cands = []
        for i, (a, b) in enumerate(toks):
            cands.append(("trunc", text[:a]))
            cands.append(("trunc-in", text[:a + max(1, (b - a) // 2)]))
            cands.append(("del", text[:a] + text[b:]))
            cands.append(("dup", text[:b] + " " + text[a:b] + text[b:]))
            cands.append(("swap", text[:a] + rng.choice(OTHER_TOKENS) + text[b:]))
        if len(cands) > per_seed_cap:
            cands = rng.sample(cands, per_seed_cap)
        inputs.append(("seed", text))
        inputs += cands
    return inputs


def stressors():
    out = []
    for n in (127, 128, 129, 4000, 70000):
        out.append(("ident", "rule %s { condition: true }" % ("a" * n)))
        out.append(("sident", 'rule r { strings: $%s = "x" condition: any of them }' % ("b" * n)))
        out.append(("tag", "rule r : %s { condition: true }" % ("t" * n)))
    for n in (8000, 8190, 8191, 8192, 8193, 9000, 70000):
        out.append(("str", 'rule r { strings: $a = "%s" condition: $a }' % ("a" * n)))
        out.append(("re", 'rule r { strings: $a = /%s/ condition: $a }' % ("a" * n)))
        out.append(("hex", "rule r { strings: $a = { %s } condition: $a }" % ("41 " * (n // 3))))
        out.append(("meta", 'rule r { meta: m = "%s" condition: true }' % ("m" * n)))
        out.append(("cmt", "rule r { /* %s */ condition: true }" % ("c" * n)))
    # long NON-literal patterns: more than 1024 top-level elements (the atom extractor's stack grows), wildcards, jumps
    for n in (500, 1030, 2100, 6000):
        out.append(("hex-long-wild", "rule r { strings: $a = { %s 42 } condition: $a }" % ("41 ?? " * n)))
        out.append(("hex-long-nibble", "rule r { strings: $a = { %s 42 } condition: $a }" % ("4? 41 " * n)))
        out.append(("re-long-dots", "rule r { strings: $a = /%sb/ condition: $a }" % ("a." * n)))
        out.append(("re-long-classes", "rule r { strings: $a = /%sb/ nocase wide ascii condition: $a }" % ("[a-c]x" * n)))
        out.append(("hex-long-jumps", "rule r { strings: $a = { %s 42 } condition: $a }" % ("41 [1-2] " * n)))
    for n in (10, 100, 1000, 5000):
        out.append(("parens", "rule r { condition: %s true %s }" % ("(" * n, ")" * n)))
        out.append(("parens-open", "rule r { condition: %s true }" % ("(" * n)))
        out.append(("nots", "rule r { condition: %s true }" % ("not " * n)))
        out.append(("minus", "rule r { condition: %s 1 == 1 }" % ("- " * n)))
        out.append(("regroups", "rule r { strings: $a = /%sa%s/ condition: $a }" % ("(" * n, ")" * n)))
        out.append(("hexalts", "rule r { strings: $a = { %s 01 %s } condition: $a }" % ("( " * n, ") " * n)))
        out.append(("ands", "rule r { condition: %s true }" % ("true and " * n)))
        out.append(("rules", "\n".join("rule r%d { condition: true }" % i for i in range(n))))
    for n in (1, 4, 5, 6, 30):
        out.append(("loops", "rule r { condition: " + "".join("for any v%d in (1..2) : (" % i for i in range(n)) + "true" + ")" * n + " }"))
    # include chains of distinct files around the depth limit (16)
    for d in (1, 15, 16, 17, 18, 20, 25):
        out.append(("inc-chain", 'include "chain%d_0"\nrule after { condition: true }' % d))
    # errors inside one piece of a chained hex string / regexp (sub-parser + chain cleanup paths)
    alts = " | ".join("%02X %02X" % (i % 256, (i * 7) % 256) for i in range(140))
    for form in ("{ ( %s ) [300] 41 42 43 }", "{ 41 42 43 [300] ( %s ) }", "{ 41 42 [300] ( %s ) [300-400] 43 44 }",
                 "{ ( %s ) }", "{ 41 42 [-] ( %s ) [-] 45 46 }"):
        out.append(("chain-piece-error", "rule r { strings: $a = %s condition: $a }" % (form % alts)))
    re_alts = "|".join("a%d" % i for i in range(140))
    for form in ("/x(%s).{300,}?yz/", "/xy.{300,}?(%s)z/", "/(%s)/", "/a.{300,}?b.{300,}?(%s)/"):
        out.append(("re-piece-error", "rule r { strings: $a = %s condition: $a }" % (form % re_alts)))
    out.append(("re-too-large", "rule r { strings: $a = /%s/ condition: $a }" % ("(abcdefgh){1000}" * 30)))
    out.append(("re-fold", "rule r { strings: $a = /a{1,2000}/ $b = /[a-z]{3,4000}x/ condition: any of them }"))
    out.append(("hex-jumps", "rule r { strings: $a = { 01 [1000000-2000000] 02 [0-] 03 [5000] 04 } condition: $a }"))
    out.append(("nul", "rule r { condition: true }\x00rule q { condition: }"))
    out.append(("empty", ""))
    out.append(("ws", " \n\t\r\n"))
    out.append(("bom", "\xef\xbb\xbfrule r { condition: true }"))
    out.append(("inc-missing", 'include "nope.yar"'))
    out.append(("inc-bad", 'include "inc_bad.yar"\nrule z { condition: true }'))
    out.append(("inc-loop", 'include "inc_loop.yar"'))
    out.append(("inc-nested", 'include "inc_nested.yar"'))
    out.append(("neg-shift", "rule r { condition: 1 << -3 == 0 }"))
    out.append(("int-min-div", "rule r { condition: (-9223372036854775807 - 1) \\ -1 == 0 }"))
    out.append(("int-min-mod", "rule r { condition: (-9223372036854775807 - 1) % -1 == 0 }"))
    return out


def make_cases(inputs, per_case, prefix, tiny_arena=False):
    cases = []
    incs = dict(INCLUDES)
    for d in (1, 15, 16, 17, 18, 20, 25):
        for i in range(d):
            incs["chain%d_%d" % (d, i)] = ('include "chain%d_%d"\n' % (d, i + 1)) if i < d - 1 else "rule leaf%d { condition: true }\n" % d
    incl = ["incl %s %s" % (hx(k), hx(v)) for k, v in incs.items()]
    for i in range(0, len(inputs), per_case):
        chunk = inputs[i:i + per_case]
        lines = list(incl)
        if tiny_arena:
            # hook H1: 64-byte arena buffers that grow by exactly what is needed, so every buffer moves many times while
            # these sources are parsed (and while their error paths unwind)
            lines.append("arena 64 1")
        for kind, text in chunk:
            lines += ["cnew 0", "cdef 0 i %s 3" % hx("ext_i"), "cdef 0 s %s %s" % (hx("ext_s"), hx("v")), "cdef 0 b %s 1" % hx("ext_b"),
                      "cdef 0 f %s 1.5" % hx("ext_f"), "cadd 0 - " + hx(text.encode("latin-1", "replace")), "crules 0 0"]
        lines += ["cnew 1", "cadd 1 - " + hx(SENTINEL), "crules 1 1", "buf 0 " + hx(b"xx needle"), "scan r1 mem 0 0 0 -"]
        cases.append(Case("%s%d" % (prefix, i // per_case), lines, dict(inputs=chunk, tiny=tiny_arena)))
    return cases

FS_FILES = {
    "ok.yar": "rule inc_ok { condition: true }\n",
    "bad.yar": "rule inc_bad { condition: }\n",
    "empty.yar": "",
    "loop.yar": 'include "loop.yar"\n',
    "sub/inner.yar": 'include "../ok.yar"\nrule inner { condition: inc_ok }\n',
    "sub/innerbad.yar": 'include "../adir"\n',
    "nul.yar": "rule a { condition: true }\n\x00\x01garbage",
}
FS_INPUTS = [
    ("fs-ok", 'include "ok.yar"\nrule r { condition: inc_ok }'),
    ("fs-dir", 'include "adir"\nrule r { condition: true }'),
    ("fs-dir-slash", 'include "adir/"'),
    ("fs-missing", 'include "missing.yar"'),
    ("fs-bad", 'include "bad.yar"\nrule z { condition: true }'),
    ("fs-empty", 'include "empty.yar"\nrule z { condition: true }'),
    ("fs-loop", 'include "loop.yar"'),
    ("fs-nested", 'include "sub/inner.yar"\nrule z { condition: inner }'),
    ("fs-nested-dir", 'include "sub/innerbad.yar"'),
    ("fs-twice", 'include "ok.yar"\ninclude "ok.yar"'),
    ("fs-devnull", 'include "/dev/null"\nrule z { condition: true }'),
    ("fs-emptyname", 'include ""'),
    ("fs-nul", 'include "nul.yar"'),
    ("fs-dot", 'include "."'),
]


def fs_cases(reps):
    """the default (file system) include callback: regular files, directories, missing files, nesting, loops;
    every compile must be diagnosed or succeed and the case must end with the descriptors it started with"""
    cases = []
    setup = ["fsbox", "mkdirp " + hx("adir"), "mkdirp " + hx("sub")] + ["mkfile %s %s" % (hx(k), hx(v.encode("latin-1"))) for k, v in FS_FILES.items()]
    for i, (kind, text) in enumerate(FS_INPUTS):
        lines = list(setup)
        for _ in range(reps):
            lines += ["cnew 0 fs", "cadd 0 - " + hx(text), "crules 0 0"]
        lines += ["cnew 1", "cadd 1 - " + hx(SENTINEL), "crules 1 1", "buf 0 " + hx(b"xx needle"), "scan r1 mem 0 0 0 -"]
        cases.append(Case("fs%d" % i, lines, dict(inputs=[(kind, text)] * reps, fs=True)))
    return cases


def check_case(chk, case, res, stats, single=False):
    """returns list of inputs to re-run alone (when the whole batch is implicated)"""
    m = case.meta
    if res.status != "ok":
        if res.status.startswith("flaky") or res.status in ("missing", "harness"):
            chk.inconc("%s: %s" % (case.cid, res.status))
            return []
        if not single and len(m["inputs"]) > 1 and not m.get("fs"):
            return m["inputs"]
        kind, text = m["inputs"][0]
        w = dict(mutation=kind, source=text[:3000], source_hex=text.encode("latin-1", "replace").hex()[:6000])
        if res.status == "leak":
            for k in common.leak_keys(res.stderr):
                chk.violation("leak:" + k.replace("leak@", ""), dict(w, stderr=res.stderr[-2500:]))
        else:
            key = common.sanitizer_key(res.stderr) if res.status == "crash" else "hang"
            chk.violation("%s:%s" % (res.status, key), dict(w, stderr=res.stderr[-3000:]))
        return []
    cadds = res.ops("cadd")
    for (kind, text), ca in zip(m["inputs"], cadds[:len(m["inputs"])]):
        stats["inputs"] += 1
        stats["kinds"][kind] = stats["kinds"].get(kind, 0) + 1
        errs = [mm for mm in ca["msgs"] if mm[0] == 0]
        w = dict(mutation=kind, source=text[:3000], source_hex=text.encode("latin-1", "replace").hex()[:6000], result=ca)
        if ca["errors"] != 0:
            stats["rejected"] += 1
            stats["messages"].add(re.sub(r'"[^"]*"|\d+', "N", errs[0][3])[:60] if errs else "")
            if not errs:
                chk.violation("failure-without-error-callback", w)
            elif any(not e[3] for e in errs):
                chk.violation("failure-with-empty-message:code%s" % ca.get("code"), w)
            elif any(e[1] <= 0 for e in errs):
                chk.violation("failure-without-line-number", w)
            else:
                stats["nontrivial"].add(hashlib.sha256(text.encode("latin-1", "replace")).hexdigest())
        else:
            stats["accepted"] += 1
            if errs:
                chk.violation("error-callback-but-success", w)
    sc = res.ops("scan")
    if not sc or sc[-1]["rc"] != 0 or [mm[0] for mm in sc[-1]["msgs"]] != [1, 3]:
        chk.violation("sentinel-differs-after-failed-compilations", dict(inputs=[t[:200] for _k, t in m["inputs"][:5]], sentinel=sc[-1:] ))
    return []


FUZZ_DRIVER = r'''
#include <stdint.h>
#include <stdio.h>
#include <stdlib.h>
#include <string.h>
#include <yara.h>
static int nerr, nempty, nline;
static void cb(int level, const char* f, int line, const YR_RULE* r, const char* msg, void* u)
{
  if (level == YARA_ERROR_LEVEL_ERROR) { nerr++; if (!msg || !*msg) nempty++; if (line <= 0) nline++; }
}
static const char* inc(const char* name, const char* cf, const char* ns, void* u)
{
  if (strstr(name, "ok")) return strdup("rule inc_rule { condition: true }\n");
  if (strstr(name, "loop")) return strdup("include \"loop\"\n");
  return NULL;
}
static void incfree(const char* p, void* u) { free((void*) p); }
int LLVMFuzzerInitialize(int* argc, char*** argv) { yr_initialize(); return 0; }
int LLVMFuzzerTestOneInput(const uint8_t* data, size_t size)
{
  YR_COMPILER* c; YR_RULES* rules;
  char* s = (char*) malloc(size + 1);
  memcpy(s, data, size); s[size] = 0;
  if (yr_compiler_create(&c) != ERROR_SUCCESS) { free(s); return 0; }
  yr_compiler_set_callback(c, cb, NULL);
  yr_compiler_set_include_callback(c, inc, incfree, NULL);
  yr_compiler_define_integer_variable(c, "ext_i", 3);
  yr_compiler_define_string_variable(c, "ext_s", "v");
  nerr = nempty = nline = 0;
  int errors = yr_compiler_add_string(c, s, NULL);
  if ((errors != 0) != (nerr != 0)) { fprintf(stderr, "CONTRACT: errors=%d callbacks=%d\n", errors, nerr); abort(); }
  if (nempty) { fprintf(stderr, "CONTRACT: empty error message\n"); abort(); }
  if (nline) { fprintf(stderr, "CONTRACT: error without line\n"); abort(); }
  if (errors == 0 && yr_compiler_get_rules(c, &rules) == ERROR_SUCCESS) yr_rules_destroy(rules);
  yr_compiler_destroy(c);
  free(s);
  return 0;
}
'''


def run_fuzzer(chk, stats, seed_texts, runs, seed, jobs=16):
    info = build.build_lib("fuzz")
    wd = harness.workdir("c07fuzz")
    shutil.rmtree(wd, ignore_errors=True)
    os.makedirs(os.path.join(wd, "corpus"))
    os.makedirs(os.path.join(wd, "art"))
    src = os.path.join(wd, "fuzz_compile.c")
    open(src, "w").write(FUZZ_DRIVER)
    exe = os.path.join(info["root"], "fuzz_compile")
    cmd = [info["cc"]] + info["cflags"] + [src, info["lib"], "-fsanitize=fuzzer,address", "-fsanitize=" + build.SAN_UB_CLANG,
                                           "-lcrypto", "-lm", "-lpthread", "-o", exe]
    p = subprocess.run(cmd, stdout=subprocess.PIPE, stderr=subprocess.STDOUT)
    if p.returncode != 0:
        raise common.HarnessFailure("cannot build libFuzzer driver: " + p.stdout.decode()[-1500:])
    for i, t in enumerate(seed_texts):
        open(os.path.join(wd, "corpus", "seed%03d" % i), "wb").write(t.encode("latin-1", "replace"))
    for f in os.listdir("/repo/tests/oss-fuzz/rules_fuzzer_corpus"):
        shutil.copy(os.path.join("/repo/tests/oss-fuzz/rules_fuzzer_corpus", f), os.path.join(wd, "corpus", "oss_" + f))
    env = dict(os.environ)
    env["ASAN_OPTIONS"] = "detect_leaks=1:allocator_may_return_null=1:quarantine_size_mb=8:handle_abort=1"
    env["UBSAN_OPTIONS"] = "print_stacktrace=1:halt_on_error=1"
    per_job = max(1000, runs // jobs)
    procs = []
    for j in range(jobs):
        cmdf = [exe, "-runs=%d" % per_job, "-seed=%d" % (seed * 100 + j + 1), "-max_len=1500", "-timeout=20", "-rss_limit_mb=3000",
                "-dict=/repo/tests/oss-fuzz/rules_fuzzer.dict", "-artifact_prefix=%s/art/j%d_" % (wd, j), "-print_final_stats=1",
                os.path.join(wd, "corpus")]
        procs.append(subprocess.Popen(cmdf, stdout=subprocess.DEVNULL, stderr=open(os.path.join(wd, "log%d" % j), "wb"), env=env, cwd=wd))
    for pr in procs:
        try:
            pr.wait(timeout=3000)
        except subprocess.TimeoutExpired:
            pr.kill()
            chk.inconc("fuzzer job did not finish")
    execs = 0
    feats = 0
    for j in range(jobs):
        log = open(os.path.join(wd, "log%d" % j), errors="replace").read()
        m = re.search(r"stat::number_of_executed_units:\s*(\d+)", log)
        if m:
            execs += int(m.group(1))
        for m in re.finditer(r"ft: (\d+)", log):
            feats = max(feats, int(m.group(1)))
    stats["fuzz_execs"] = execs
    stats["fuzz_features"] = feats
    stats["fuzz_corpus"] = len(os.listdir(os.path.join(wd, "corpus")))
    arts = sorted(os.listdir(os.path.join(wd, "art")))
    # re-run each artifact singly (parallel jobs interleave their reports)
    seen = set()
    for a in arts[:40]:
        path = os.path.join(wd, "art", a)
        pr = subprocess.run([exe, path], stdout=subprocess.PIPE, stderr=subprocess.PIPE, env=env, timeout=120)
        err = pr.stderr.decode(errors="replace")
        data = open(path, "rb").read()
        if pr.returncode == 0:
            chk.inconc("artifact %s did not reproduce" % a)
            continue
        if "CONTRACT:" in err:
            key = "fuzz-contract:" + re.search(r"CONTRACT: ([a-z ]+)", err).group(1).strip().replace(" ", "-")
        elif "LeakSanitizer" in err:
            key = "leak:" + common.leak_keys(err)[0].replace("leak@", "")
        elif a.split("_", 1)[1].startswith("timeout"):
            key = "hang:fuzz"
        else:
            key = "crash:" + common.sanitizer_key(err)
        if key in seen:
            continue
        seen.add(key)
        chk.violation(key, dict(source=data.decode("latin-1")[:2000], source_hex=data.hex()[:4000], stderr=err[-2500:],
                                cmd="build/fuzz/fuzz_compile <file with these bytes>"))
    shutil.rmtree(wd, ignore_errors=True)


def main(args):
    chk = common.Check(PID, args.tier, args.seed)
    exe = harness.get_exe("asan")
    rng = chk.rng
    seed_texts = seeds(rng)
    cap = int((140 if args.tier == "quick" else 100000) * args.scale)
    inputs = sweep_inputs(rng, seed_texts, cap) + stressors()
    tiny = stressors() + inputs[:int(400 * args.scale)]
    cases = make_cases(inputs, 40, "b") + fs_cases(6) + make_cases(tiny, 20, "t", tiny_arena=True)
    stats = dict(inputs=0, rejected=0, accepted=0, nontrivial=set(), kinds={}, messages=set(), samples=[])
    results = harness.run_cases(exe, cases, "c07", cpu=300, batch=2)
    retry, retry_tiny = [], []
    for c in cases:
        (retry_tiny if c.meta.get("tiny") else retry).extend(check_case(chk, c, results[c.cid], stats))
    singles = make_cases(retry, 1, "s") + make_cases(retry_tiny, 1, "st", tiny_arena=True)
    if singles:
        res2 = harness.run_cases(exe, singles, "c07s", cpu=120, batch=8)
        for c in singles:
            check_case(chk, c, res2[c.cid], stats, single=True)
    runs = int((200000 if args.tier == "quick" else 5000000) * args.scale)
    run_fuzzer(chk, stats, seed_texts, runs, args.seed)
    stats["samples"] = [{"mutation": k, "source": t[:160]} for k, t in inputs[1:400:57]]
    return chk.finish(
        evaluations=stats["inputs"] + stats.get("fuzz_execs", 0),
        distinct_nontrivial=len(stats["nontrivial"]),
        rule="(1) grammar-position sweep: for each of ~40 valid seed rules (hand-written ones covering every section of the "
             "grammar + outputs of the text/hex/regex/condition/rule generators) every truncation at and inside a token, "
             "every single-token deletion, duplication and swap with a token of another kind (capped per seed in the "
             "quick tier); (2) size stressors around the lexer buffer, identifier limit, nesting depth, include errors "
             "(in-memory include callback, and the default file-system callback on a private directory with regular, "
             "empty, missing, nested, self-including files and directories; the harness compares the number of open "
             "descriptors before and after every case); the stressors and a slice of the sweep are compiled a second time "
             "with 64-byte arena buffers and exact growth (hook H1) so that every arena buffer moves while parsing; "
             "each input is compiled in the yrh harness under ASan+UBSan+LSan (40 per process, batches implicated in a "
             "crash/leak/hang are re-run input by input) and the diagnosis contract is checked; a sentinel compile+scan "
             "ends every batch; (3) libFuzzer (clang, ASan+UBSan+LSan) on yr_compiler_add_string + get_rules + destroy "
             "with the contract asserted in the driver, dictionary and corpus from the repo + the seeds, bounded by "
             "-runs. non-trivial = distinct rejected input whose failure was diagnosed with message and line",
        samples=stats["samples"],
        extra={"sweep_inputs": stats["inputs"], "rejected": stats["rejected"], "accepted": stats["accepted"],
               "mutation_kinds": stats["kinds"], "distinct_error_message_shapes": len(stats["messages"]),
               "libfuzzer_executions": stats.get("fuzz_execs", 0), "libfuzzer_features": stats.get("fuzz_features", 0),
               "libfuzzer_corpus_files": stats.get("fuzz_corpus", 0)},
        assumptions=["only the first 50 messages of a compilation are inspected"],
        min_nontrivial=100)
