"""C11 - the scan callback protocol is exact.
Oracle: executable protocol model; every callback position x {abort, error} is enumerated."""
import hashlib
import multiprocessing
import random

from vlib import common, harness
from vlib.harness import Case, hx

PID = "C11"
MATCHING, NOT_MATCHING, FINISHED, IMPORT, IMPORTED = 1, 2, 3, 4, 5
F_MATCH, F_NOMATCH = 8, 16
ERROR_CALLBACK_ERROR = 28
MODULES = ["tests", "math", "hash", "time", "string", "pe", "elf"]


NS_NAMES = ["ns", "ns1", "ns10", "n", "ns1x", "corp", "corp_eu", "a", "ab", "abc", "zz", "z", "ns2", "ns20"]
CHAIN = b"NEEDLE" + b"." * 210 + b"ZZ"


def build_case(seed_cid):
    seed, cid = seed_cid
    rng = random.Random(seed)
    nns = rng.choice([1, 1, 2, 3, 3, 10, 12])
    # namespace names that are prefixes of one another, in random order (a name added later may extend an earlier one)
    ns_names = rng.sample(NS_NAMES, nns) if rng.random() < 0.6 else ["ns%d" % n for n in range(nns)]
    # two buffers with opposite truth for the string rules and different sizes; scans alternate between them on one
    # reused scanner, so whatever a scan leaves behind (rule flags, namespace vetoes, disabled strings) shows in the next
    tail0 = bytes(rng.randrange(256) for _ in range(rng.randint(0, 40)))
    planted0 = rng.random() < 0.6
    bufs = [((b"xx NEEDLE yy " + CHAIN) if planted0 else b"xx nothing yy ") + tail0,
            (b"xx nothing yy " if planted0 else (b"q NEEDLE " + CHAIN + b" and more filler to change the size")) + tail0[:7]]
    planted = [planted0, not planted0]
    pieces = []
    rules = []      # dicts: ns, name, glob, priv, truth (one per buffer)
    imports_order = []
    few = nns >= 10
    wide = few and rng.random() < 0.35      # 60-84 rules: per-scan rule bitmaps longer than one 64-bit word
    for n in range(nns):
        ns = ns_names[n]
        src = []
        for mod in rng.sample(MODULES, rng.choice([0, 0, 1, 2, 3]) if not few else rng.choice([0, 0, 0, 1])):
            src.append('import "%s"' % mod)
            if mod not in imports_order:
                imports_order.append(mod)
        nr = rng.randint(1, 6) if not few else (rng.randint(5, 7) if wide else rng.randint(1, 2))
        local = []
        for k in range(nr):
            name = "r%d" % k
            glob = rng.random() < (0.2 if not few else 0.45)
            priv = rng.random() < 0.25
            kind = rng.random()
            strings = ""
            if kind < 0.2:
                cond, truth = "true", [True, True]
            elif kind < 0.3:
                cond, truth = "false", [False, False]
            elif kind < 0.42:
                lim = rng.choice([0, 5, len(bufs[0]), len(bufs[0]) + 1, len(bufs[1]), 1000])
                cond, truth = "filesize > %d" % lim, [len(b) > lim for b in bufs]
            elif kind < 0.5:
                # a condition whose value is undefined (counts as false)
                cond, truth = rng.choice(["uint16(100000) == 5", "uint8(filesize) >= 0", "int32(filesize - 1) != 7",
                                          "not uint8(4000) == 1", "1 \\ (filesize - filesize) == 0"]), [False, False]
            elif kind < 0.68:
                strings = ' strings: $a = "NEEDLE"'
                cond, truth = "$a", list(planted)
            elif kind < 0.76:
                # a string split at a jump of more than 200 bytes (chained): its match is confirmed through another path
                strings = " strings: $c = { 4E 45 45 44 4C 45 [205-215] 5A 5A }"
                cond, truth = "$c", list(planted)
            elif kind < 0.85:
                strings = ' strings: $a = "NEEDLE"'
                cond, truth = "not $a", [not x for x in planted]
            elif local and not few:
                ref = rng.choice(local)
                neg = rng.random() < 0.4
                cond, truth = ("not " if neg else "") + ref["name"], [(not t) if neg else t for t in ref["truth"]]
            else:
                cond, truth = "filesize >= 0", [True, True]
            src.append("%s%srule %s {%s condition: %s }" % ("global " if glob else "", "private " if priv else "", name,
                                                          strings, cond))
            d = dict(ns=ns, name=name, glob=glob, priv=priv, truth=truth, isref=cond.endswith(tuple("0123456789")) and "r" in cond.split()[-1])
            local.append(d)
            rules.append(d)
        pieces.append((ns, "\n".join(src) + "\n"))
    # references into a namespace whose global rules fail are not specified by the property: avoid
    bad_ns = set(r["ns"] for r in rules for j in (0, 1) if r["glob"] and not r["truth"][j])
    has_ref_in_bad = any(r["isref"] and r["ns"] in bad_ns for r in rules)
    lines = ["cnew 0"]
    # YR_CONFIG_MAX_MATCH_DATA only limits the bytes copied for the callback: which rules match, and the messages sent,
    # must not depend on it (own generator so that the rest of the case is the same as without this variation)
    cfg_rng = random.Random(seed * 2654435761 % (1 << 32) + 11)
    if cfg_rng.random() < 0.3:
        lines.insert(0, "cfg matchdata %d" % cfg_rng.choice([0, 0, 1, 2, 64]))
    for ns, text in pieces:
        lines.append("cadd 0 %s %s" % (hx(ns), hx(text)))
    lines += ["crules 0 0", "buf 0 " + hx(bufs[0]), "buf 1 " + hx(bufs[1]), "snew 0 0"]
    # expected uninterrupted sequences per flag setting and buffer
    plans = []
    for flags in (0, F_MATCH, F_NOMATCH, F_MATCH | F_NOMATCH):
        eff = flags if flags else (F_MATCH | F_NOMATCH)
        for j in ((0, 1) if rng.random() < 0.5 else (1, 0)):
            seq = []
            for mod in imports_order:
                seq.append([IMPORT, mod])
                seq.append([IMPORTED, mod])
            for r in rules:
                ok = r["truth"][j] and all(g["truth"][j] for g in rules if g["ns"] == r["ns"] and g["glob"])
                if r["priv"]:
                    continue
                if ok and (eff & F_MATCH):
                    seq.append([MATCHING, "%s:%s" % (r["ns"], r["name"])])
                elif not ok and (eff & F_NOMATCH):
                    seq.append([NOT_MATCHING, "%s:%s" % (r["ns"], r["name"])])
            seq.append([FINISHED, ""])
            scans = [("-", None, None)]
            positions = list(range(len(seq) - 1))
            if len(positions) > 14:
                # large rule sets: the first and last positions and a sample of the others
                positions = sorted(set(positions[:4] + positions[-4:] + rng.sample(positions, 6)))
            for k in positions:
                for act in ("a", "e"):
                    if seq[k][0] in (IMPORT, IMPORTED) and act == "a":
                        continue      # abort on a module message: not specified by the property
                    scans.append(("%d:%s" % (k, act), k, act))
            for script, k, act in scans:
                use_scanner = rng.random() < 0.6
                if use_scanner:
                    lines.append("scan s0 mem %d %d 0 %s" % (j, flags, script))
                else:
                    lines.append("scan r0 mem %d %d 0 %s" % (j, flags, script))
            plans.append((flags, seq, scans))
    meta = dict(src="\n".join("// %s\n%s" % p for p in pieces), plans=plans, skip=has_ref_in_bad, buf=bufs[0].hex() + " / " + bufs[1].hex(),
                shape=(nns, len(imports_order), sum(r["glob"] for r in rules), sum(r["priv"] for r in rules),
                       len(bad_ns)))
    return Case(cid, lines, meta)


def evaluate(chk, case, res, stats):
    m = case.meta
    wit_base = {"rule_source": m["src"], "buffer_hex": m["buf"], "script": case.script()}
    if res.status != "ok":
        if res.status.startswith("flaky") or res.status in ("missing", "harness"):
            chk.inconc("%s: %s" % (case.cid, res.status))
            return
        key = common.sanitizer_key(res.stderr) if res.status == "crash" else (
            common.leak_keys(res.stderr)[0] if res.status == "leak" else "hang")
        chk.violation("%s:%s" % (res.status, key), dict(wit_base, stderr=res.stderr[-3000:]))
        return
    cadd = res.ops("cadd")
    if any(c["errors"] != 0 for c in cadd) or res.ops("crules")[0]["rc"] != 0:
        chk.violation("rule-set-rejected", dict(wit_base, compile=cadd))
        return
    if m["skip"]:
        stats["skipped_unspecified"] += 1
        return
    scans = res.ops("scan")
    pos = 0
    for flags, seq, plan in m["plans"]:
        for script, k, act in plan:
            sc = scans[pos]
            pos += 1
            stats["scans"] += 1
            got = [[mm[0], mm[1]] for mm in sc["msgs"]]
            w = dict(wit_base, flags=flags, callback_script=script, expected_uninterrupted=seq, got=got, rc=sc["rc"])
            stats["shapes"].add((m["shape"], flags))
            if k is None:
                if got != seq or sc["rc"] != 0:
                    chk.violation("uninterrupted-sequence", w)
                else:
                    stats["nontrivial"].add(hashlib.sha256(repr((m["src"], flags)).encode()).hexdigest())
                continue
            stats["positions"].add((seq[k][0], act))
            exp_prefix = seq[:k + 1]
            if got[:k + 1] != exp_prefix:
                chk.violation("prefix-before-interruption", w)
                continue
            rest = got[k + 1:]
            if seq[k][0] in (IMPORT, IMPORTED):
                # error answered to a module message: scan fails with callback-error and nothing more
                if sc["rc"] != ERROR_CALLBACK_ERROR:
                    chk.violation("module-message-error-rc", w)
                elif rest:
                    chk.violation("messages-after-module-error", w)
                continue
            if any(x[0] in (MATCHING, NOT_MATCHING, IMPORT, IMPORTED) for x in rest):
                chk.violation("rule-message-after-" + ("abort" if act == "a" else "error"), w)
            if len([x for x in rest if x[0] == FINISHED]) > 1:
                chk.violation("scan-finished-twice", w)
            want_rc = 0 if act == "a" else ERROR_CALLBACK_ERROR
            if sc["rc"] != want_rc:
                chk.violation("wrong-rc-after-" + ("abort" if act == "a" else "error"), w)
    if len(stats["samples"]) < 4:
        stats["samples"].append({"rules": m["src"][:400], "flags": m["plans"][3][0], "uninterrupted": m["plans"][3][1][:12]})


def main(args):
    chk = common.Check(PID, args.tier, args.seed, level="fault_enumeration")
    exe = harness.get_exe("asan")
    ncases = int((400 if args.tier == "quick" else 8000) * args.scale)
    rng = chk.rng
    seeds = [(rng.getrandbits(64), "c%d" % i) for i in range(ncases)]
    with multiprocessing.Pool(16) as pool:
        cases = pool.map(build_case, seeds, chunksize=8)
    results = harness.run_cases(exe, cases, "c11", cpu=300)
    stats = dict(scans=0, nontrivial=set(), samples=[], shapes=set(), positions=set(), skipped_unspecified=0)
    for c in cases:
        evaluate(chk, c, results[c.cid], stats)
    return chk.finish(
        evaluations=stats["scans"],
        distinct_nontrivial=len(stats["nontrivial"]),
        rule="per generated rule set (1-3 or 10-12 namespaces whose names may be prefixes of one another, global/private/global+private/ordinary rules with known truth: "
             "constants, filesize tests, a planted/absent string incl. the required-strings shortcut, a chained hex string, references; 0-3 "
             "imports per namespace) and per report-flag setting (0, MATCHING, NOT_MATCHING, both): the uninterrupted "
             "message sequence is compared with the protocol model, then EVERY message position k x {abort, error} is "
             "replayed (abort on module messages excluded: unspecified; sampled positions for the 10-12 namespace sets) "
             "through yr_rules_scan_mem or one reused scanner, alternating between two buffers with opposite truth values. "
             "non-trivial = (rule set, flags) whose uninterrupted sequence agrees with the model and is then "
             "interrupted at every position; distinct by sha256(rule text, flags)",
        samples=stats["samples"],
        extra={"rule_sets": len(cases), "distinct_shapes(ns,imports,globals,privates,failing-global-ns,flags)": len(stats["shapes"]),
               "(message kind, answer) pairs covered": sorted(stats["positions"]),
               "rule_sets_skipped_reference_into_failing_global_namespace": stats["skipped_unspecified"]},
        assumptions=["whether SCAN_FINISHED follows an abort/error is left unconstrained (not stated by the property)"],
        min_nontrivial=20, exhaustive=True)
