"""C13 - all scan entry points agree, also across interrupted block iteration.
Oracle: differential between entry points; exhaustive enumeration of not-ready schedules for <=4 blocks."""
import hashlib
import itertools
import multiprocessing
import random

from vlib import common, harness, rulegen
from vlib.harness import Case, hx

PID = "C13"
DATA = "/repo/tests/data/"
ERROR_BLOCK_NOT_READY = 61

PROBE = r'''
import "hash"
import "math"
import "pe"
import "elf"
rule ep1 { condition: defined entrypoint }
rule ep2 { condition: entrypoint > 0x400 }
rule rd1 { condition: uint32(0) == 0x464c457f or uint16(0) == 0x5a4d }
rule rd2 { condition: uint8(filesize - 1) > 0x40 }
rule rd3 { condition: uint16be(filesize \ 2) % 3 == 1 }
rule h1 { condition: hash.checksum32(0, filesize) % 4 == 2 }
rule h2 { condition: hash.crc32(0, filesize) % 2 == 0 }
rule h3 { condition: hash.sha1(0, filesize) matches /^[0-7]/ }
rule m1 { condition: math.mean(0, filesize) > 90.0 }
rule m2 { condition: math.in_range(math.entropy(0, filesize), 2.0, 5.0) }
rule fs { condition: filesize % 2 == 0 }
rule pe1 { condition: pe.number_of_sections > 3 }
rule elf1 { condition: elf.number_of_sections > 3 }
rule w1 { strings: $a = "needle" fullword condition: $a }
rule w2 { strings: $a = /ne+dle/ fullword condition: #a > 0 }
'''


def schedule_to_indices(counts):
    idx = 0
    out = []
    for n in counts:
        for _ in range(n):
            out.append(idx)
            idx += 1
        idx += 1
    return out


def build_case(seed_cid):
    seed, cid = seed_cid
    rng = random.Random(seed)
    vocab = rulegen.make_vocab(rng)
    extra = [rulegen.gen_rule(rng, vocab, "g%d" % k, "default", [], allow_flags=False) for k in range(rng.randint(1, 6))]
    text = PROBE + "\n".join(r.text for r in extra) + "\n"
    lines = ["cnew 0", "cadd 0 - " + hx(text), "crules 0 0", "snew 0 0"]
    plan = []
    kind = rng.choice(["gen", "gen", "gen", "page", "empty", "pe", "elf", "tail"])
    if kind == "gen":
        buf = rulegen.gen_buffers(rng, extra, n=1)[0] + rng.choice([b"", b" needle", b"xneedle"])
        lines.append("buf 0 " + hx(buf))
        n = len(buf)
    elif kind == "page":
        n = rng.choice([4096, 8192, 4096 * 3])
        body = bytearray(rng.choice(b"ab \x00needl") for _ in range(n))
        body[-6:] = b"needle"          # a match ending exactly at the last byte of a page-aligned buffer
        lines.append("buf 0 " + hx(bytes(body)))
    elif kind == "tail":
        n = rng.randint(7, 300)
        body = bytearray(rng.choice(b"ab .") for _ in range(n))
        body[-6:] = b"needle"
        lines.append("buf 0 " + hx(bytes(body)))
    elif kind == "empty":
        n = 0
        lines.append("buf 0 -")
    else:
        f = {"pe": "tiny", "elf": "elf_with_imports"}[kind]
        lines.append("buffile 0 " + DATA + f)
        n = {"pe": 32768, "elf": 17080}[kind]
    flags = rng.choice([0, 0, 8, 24])
    # 1. all entry points
    eps = [("r0", "mem"), ("r0", "file"), ("r0", "fd"), ("r0", "blocks"), ("s0", "mem"), ("s0", "file"), ("s0", "fd"),
           ("s0", "blocks")]
    for tgt, mode in eps:
        lines.append("scan %s %s 0 %d 0 -" % (tgt, mode, flags))
        plan.append(("entry", tgt + ":" + mode))
    # 2. block partition, uninterrupted then every not-ready schedule
    B = rng.choice([1, 2, 2, 3, 3, 4])
    if n >= B and n > 0:
        cuts = sorted(rng.sample(range(1, n), B - 1)) if B > 1 else []
        sizes = [b - a for a, b in zip([0] + cuts, cuts + [n])]
    else:
        B = 1
        sizes = [n]
    part = ",".join(str(x) for x in sizes)
    lines.append("scan s0 blocks 0 %d 0 - %s - 1000 -" % (flags, part))
    plan.append(("part", None))
    scheds = list(itertools.product((0, 1), repeat=B + 1))[1:]
    # a few schedules with repeated not-ready answers
    for _ in range(3):
        scheds.append(tuple(rng.choice([0, 1, 2, 3]) for _ in range(B + 1)))
    for sc in scheds:
        idxs = schedule_to_indices(sc)
        if not idxs:
            continue
        lines.append("scan s0 blocks 0 %d 0 - %s %s 1000 -" % (flags, part, ",".join(map(str, idxs))))
        plan.append(("sched", sc))
    # 3. not-ready during the re-iteration done by rule evaluation (calls after the scanning phase)
    for c in range(B + 1, B + 1 + 8):
        lines.append("scan s0 blocks 0 %d 0 - %s %d 1000 -" % (flags, part, c))
        plan.append(("eval", c))
    meta = dict(plan=plan, kind=kind, B=B, n=n, flags=flags, extra="\n".join(r.text for r in extra)[:3000], part=part)
    return Case(cid, lines, meta)


def evaluate(chk, case, res, stats):
    m = case.meta
    wit_base = {"buffer_kind": m["kind"], "size": m["n"], "partition": m["part"], "flags": m["flags"],
                "generated_rules": m["extra"], "script": case.script() if len(case.script()) < 300000 else "(large)"}
    if res.status != "ok":
        if res.status.startswith("flaky") or res.status in ("missing", "harness"):
            chk.inconc("%s: %s" % (case.cid, res.status))
            return
        key = common.sanitizer_key(res.stderr) if res.status == "crash" else (
            common.leak_keys(res.stderr)[0] if res.status == "leak" else "hang")
        chk.violation("%s:%s" % (res.status, key), dict(wit_base, stderr=res.stderr[-3000:]))
        return
    cadd = res.ops("cadd")
    if any(c["errors"] != 0 for c in cadd) or res.ops("crules")[0]["rc"] != 0:
        stats["rejected"] += 1
        return
    scans = res.ops("scan")
    sig = lambda s: (s["rc"], s["msgs"], s["matches"])
    ref = None
    pref = None
    for (kind, arg), sc in zip(m["plan"], scans):
        stats["scans"] += 1
        if kind == "entry":
            if ref is None:
                ref = sig(sc)
                refname = arg
            elif sig(sc) != ref:
                diff = [x for x in sc["msgs"] if x not in ref[1]][:4] + [x for x in ref[1] if x not in sc["msgs"]][:4]
                chk.violation("entry-points-disagree", dict(wit_base, a=refname, b=arg, rc_a=ref[0], rc_b=sc["rc"],
                                                            differing_messages=diff, matches_differ=ref[2] != sc["matches"]))
            stats["entry_cmp"] += 1
        elif kind == "part":
            pref = sig(sc)
            if sc["rc"] != 0:
                chk.violation("partitioned-scan-failed-rc%d" % sc["rc"], wit_base)
        elif kind == "sched":
            stats["schedules"] += 1
            stats["sched_shapes"].add((m["B"], arg))
            if sc["rc"] == ERROR_BLOCK_NOT_READY:
                chk.violation("scan-never-completes", dict(wit_base, schedule=arg))
            elif sig(sc) != pref:
                dup = [x for x in sc["msgs"] if sc["msgs"].count(x) > pref[1].count(x)][:4]
                lost = [x for x in pref[1] if x not in sc["msgs"]][:4]
                chk.violation("interrupted-scan-differs", dict(
                    wit_base, schedule_not_ready_counts_per_iterator_call=arg, rc=sc["rc"], duplicated_or_extra=dup, lost=lost,
                    matches_differ=pref[2] != sc["matches"]))
        else:
            stats["eval_notready"] += 1
            if sc.get("itcalls", 0) <= arg:
                continue        # that call never happened
            if sig(sc) != pref:
                chk.violation("notready-during-evaluation", dict(wit_base, iterator_call=arg, rc=sc["rc"],
                                                                lost=[x for x in pref[1] if x not in sc["msgs"]][:6]))
    if ref is not None and any(x[0] == 1 for x in ref[1]):
        stats["nontrivial"].add(hashlib.sha256((m["extra"] + m["part"]).encode()).hexdigest())
    stats["kinds"][m["kind"]] = stats["kinds"].get(m["kind"], 0) + 1
    if len(stats["samples"]) < 4:
        stats["samples"].append({"buffer": m["kind"], "size": m["n"], "partition": m["part"],
                                 "plan": [p for p in m["plan"] if p[0] != "entry"][:10]})


def main(args):
    chk = common.Check(PID, args.tier, args.seed, level="fault_enumeration")
    exe = harness.get_exe("asan")
    ncases = int((1000 if args.tier == "quick" else 12000) * args.scale)
    rng = chk.rng
    seeds = [(rng.getrandbits(64), "c%d" % i) for i in range(ncases)]
    with multiprocessing.Pool(16) as pool:
        cases = pool.map(build_case, seeds, chunksize=8)
    results = harness.run_cases(exe, cases, "c13", cpu=600, batch=3)
    stats = dict(scans=0, entry_cmp=0, schedules=0, eval_notready=0, nontrivial=set(), samples=[], rejected=0, kinds={},
                 sched_shapes=set())
    for c in cases:
        evaluate(chk, c, results[c.cid], stats)
    return chk.finish(
        evaluations=stats["scans"],
        distinct_nontrivial=len(stats["nontrivial"]),
        rule="per (rule set, buffer): the 8 entry points yr_rules_scan_{mem,file,fd,mem_blocks} and "
             "yr_scanner_scan_{mem,file,fd,mem_blocks} (user single-block iterator; every block is a private exact-size "
             "heap copy under ASan) must give identical return code, callback trace and match lists; then the buffer is "
             "cut into B<=4 blocks and EVERY subset of the B+1 scanning-phase iterator calls answers not-ready once "
             "(plus schedules with repeated not-ready), the scan call being repeated until it completes, and the "
             "result is compared with the uninterrupted scan of the same partition; finally a not-ready at each of the "
             "first 8 iterator calls made by rule evaluation (uintN, hash, math re-iteration). Buffers: generated, "
             "page-size multiples with a match ending at the last byte, empty, PE, ELF. non-trivial = case in which "
             "some rule matches; distinct by sha256(rules, partition)",
        samples=stats["samples"],
        extra={"cases": len(cases), "entry_point_comparisons": stats["entry_cmp"], "not_ready_schedules": stats["schedules"],
               "distinct (blocks, schedule) shapes": len(stats["sched_shapes"]),
               "evaluation_phase_not_ready_scans": stats["eval_notready"], "buffer_kinds": stats["kinds"]},
        assumptions=["matches that span a block border are lost in every run of the same partition alike, so they do not "
                     "affect the comparison"],
        min_nontrivial=10, exhaustive=True)
