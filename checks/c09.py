"""C09 - concurrent scans that share one rule set are race-free and deterministic.
Oracle: ThreadSanitizer (reports de-duplicated by stack pair) + per-scan comparison with reference traces
recorded single-threaded in the same process + quiescent-point invariants on the signal-handler state."""
import glob
import hashlib
import json
import os
import re
import shutil
import subprocess

from vlib import build, common, harness

REPO_PREFIX = common.REPO_PREFIX
PID = "C09"
DATA = "/repo/tests/data/"

RULES = r'''
import "pe"
import "elf"
import "hash"
import "math"
rule s_text { strings: $a = "needle" $b = "NEEDLE" nocase wide ascii $c = "xorme" xor condition: any of them }
rule s_hex { strings: $a = { 4d 5a [2-10] 00 } $b = { 6e 65 ?? 64 6c 65 } condition: any of them }
rule s_re { strings: $a = /ne+dle[0-9]{0,3}/ $b = /(ab|cd){2,5}x?/ $c = /\bword[a-z]*\b/ condition: any of them }
rule s_chain { strings: $a = { 6e 65 65 64 [200-300] 6c 65 } condition: $a }
rule r_matches { condition: tname matches /^thread-[0-9]+$/ }
rule r_pe { condition: pe.number_of_sections > 3 and pe.entry_point > 0 }
rule r_elf { condition: elf.number_of_sections > 5 }
rule r_hash { condition: hash.md5(0, filesize) != hash.sha1(0, filesize) and hash.crc32(0, filesize) % 2 == 0 }
rule r_math { condition: math.entropy(0, filesize) > 3.0 and math.mean(0, filesize) < 200.0 }
rule r_ep { condition: defined entrypoint and entrypoint > 0 }
rule r_odd { condition: todd }
rule r_float { condition: tf > 3.0 }
rule r_loop { strings: $a = "ab" condition: for any i in (1..#a) : (@a[i] % 7 == tid % 7) }
'''


def rules_text():
    t = RULES
    for k in range(32):
        t += "rule tid_%d { condition: tid == %d }\n" % (k, k)
        t += 'rule tname_%d { condition: tname == "thread-%d" }\n' % (k, k)
    return t


def tsan_reports(logdir):
    """de-duplicate TSan reports: by the pair of outermost libyara entry points, then by stack pair without line numbers"""
    reports = []
    for p in glob.glob(os.path.join(logdir, "tsan.*")):
        txt = open(p, errors="replace").read()
        for block in txt.split("==================")[0:]:
            if "WARNING: ThreadSanitizer" not in block:
                continue
            kind = re.search(r"WARNING: ThreadSanitizer: ([^\(\n]+)", block).group(1).strip()
            stacks = re.split(r"\n\s*\n", block)
            frames = re.findall(r"#\d+ (\S+) (\S+)", block)
            fns = [f for f, loc in frames if (REPO_PREFIX in loc) or "libyara" in loc]
            key = kind + ":" + ">".join(fns[:3])
            reports.append((key, block[:3000]))
    return reports


def main(args):
    chk = common.Check(PID, args.tier, args.seed)
    info = build.build_harness("tsan", "yrmt", ["yrmt.c"])
    exe = info["exe"]
    base = harness.workdir("c09")
    shutil.rmtree(base, ignore_errors=True)
    os.makedirs(base)
    rng = chk.rng
    rules = os.path.join(base, "rules.yar")
    open(rules, "w").write(rules_text())
    files = []
    texts = [b"xx needle NEEDLE n\x00e\x00e\x00d\x00l\x00e\x00 neeedle42 abcdabcdx word wordy " + b"need" + b"-" * 230 + b"le",
             b"", bytes(rng.randrange(256) for _ in range(5000)), b"ab" * 400 + bytes(c ^ 0x17 for c in b"xorme")]
    for i, t in enumerate(texts):
        p = os.path.join(base, "text%d.bin" % i)
        open(p, "wb").write(t)
        files.append(p)
    for f in ("tiny", "elf_with_imports", "mtxex.dll", "0ca09bde7602769120fadc4f7a4147347a7a97271370583586c9e587fd396171"):
        p = os.path.join(base, f[:12])
        shutil.copy(DATA + f, p)
        files.append(p)
    big = os.path.join(base, "BIGFILE.bin")
    with open(big, "wb") as f:
        blk = bytes(rng.randrange(256) for _ in range(65536))
        for _ in range(48 if args.tier == "quick" else 96):
            f.write(blk)
    runs = []
    thread_counts = [1, 2, 4, 8, 16, 32]
    iters = int((150 if args.tier == "quick" else 1500) * args.scale) or 5
    reps = 2 if args.tier == "quick" else 6
    for rep in range(reps):
        for n in thread_counts:
            runs.append((n, iters, args.seed * 1000 + rep * 50 + n, 1 if rep % 2 == 0 else 0, rep == 0 and n in (8, 32)))
    stats = dict(scans=0, refs=0, pairs=0, points=0, tsan_reports=0, samples=[], timed=0, nontrivial=set())
    for n, it, seed, yld, with_big in runs:
        logdir = os.path.join(base, "log_%d_%d" % (n, seed))
        os.makedirs(logdir, exist_ok=True)
        env = dict(os.environ)
        env["TSAN_OPTIONS"] = "halt_on_error=0:log_path=%s/tsan:second_deadlock_stack=1:history_size=4:exitcode=0" % logdir
        if n >= 2 and (seed % 2 == 0 or n in (4, 16)):
            # some threads scan data that faults (a mapping longer than its file): SIGBUS handled by the library
            env["YRMT_FAULTS"] = "1"
        cmd = [exe, rules, base, str(n), str(it), str(seed), str(yld)] + files + ([big] if with_big else [])
        w = dict(cmd=" ".join(cmd), threads=n, iterations=it, yield_points=bool(yld))
        try:
            p = subprocess.run(cmd, stdout=subprocess.PIPE, stderr=subprocess.PIPE, env=env, timeout=1500)
        except subprocess.TimeoutExpired:
            chk.inconc("run with %d threads did not finish (watchdog)" % n)
            continue
        out = p.stdout.decode(errors="replace").strip().split("\n")[-1]
        try:
            d = json.loads(out)
        except ValueError:
            key = "crash-under-concurrency:" + common.sanitizer_key(p.stderr.decode(errors="replace"))
            chk.violation(key, dict(w, exit=p.returncode, stderr=p.stderr.decode(errors="replace")[-3000:]))
            continue
        stats["scans"] += d["scans"]
        stats["refs"] += d["reference_scans"]
        stats["pairs"] = max(stats["pairs"], d["overlap_pairs"])
        stats["points"] += d["points"]
        stats["timed"] += d["timed_scans"]
        if d["mismatches"]:
            chk.violation("scan-result-differs-under-concurrency", dict(w, mismatches=d["mismatches"], first=d["first_mismatch"]))
        if d["usecount"] != 0 or not d["handlers_restored"]:
            chk.violation("signal-handler-state-after-quiescence", dict(w, usecount=d["usecount"], restored=d["handlers_restored"]))
        stats["fault_scans"] = stats.get("fault_scans", 0) + d.get("fault_scans", 0)
        if d.get("fd_closed"):
            chk.violation("descriptor-closed-by-library", dict(w, scans_that_lost_their_descriptor=d["fd_closed"]))
        if d.get("fault_wrong_rc"):
            chk.violation("faulting-scan-not-reported-as-could-not-map", dict(w, fault_scans=d["fault_scans"], wrong=d["fault_wrong_rc"]))
        if d["early_timeouts"]:
            chk.violation("timeout-reported-before-deadline", dict(w, early_timeouts=d["early_timeouts"], timed_scans=d["timed_scans"]))
        seen = set()
        for key, block in tsan_reports(logdir):
            if key in seen:
                continue
            seen.add(key)
            stats["tsan_reports"] += 1
            chk.violation("data-race:" + key, dict(w, report=block))
        if n >= 2 and d["overlap_pairs"] > 0:
            stats["nontrivial"].add((n, seed))
        if len(stats["samples"]) < 6:
            stats["samples"].append(d)
        shutil.rmtree(logdir, ignore_errors=True)
    shutil.rmtree(base, ignore_errors=True)
    return chk.finish(
        evaluations=stats["scans"],
        distinct_nontrivial=len(stats["nontrivial"]) + stats["pairs"],
        rule="one shared compiled rule set (text/hex/regex/chained strings, pe/elf/hash/math, `matches`, loops, 64 rules "
             "keyed on per-scanner externals) scanned by 1,2,4,8,16,32 threads, each with its own scanner whose integer, "
             "string, boolean and float externals encode the thread id; every thread runs a shuffled list of scans "
             "(yr_rules_scan_mem, scanner scan_mem/scan_file/scan_fd/scan_mem_blocks on text, random, PE, PE32+, .NET, "
             "ELF data; 20% ended by CALLBACK_ABORT/ERROR at message 0, 3 or 7; scanners destroyed and re-created "
             "while others scan; in part of the runs some scans read a mapping that is longer than its file, so the "
             "library's SIGBUS handler runs while other threads are inside their protected regions) and compares a hash of the callback sequence and match lists with the reference "
             "recorded single-threaded in the same process for that (thread id, buffer, entry point, abort position). "
             "Built with -fsanitize=thread; H3 yield points inject sched_yield/usleep between scan phases and record "
             "which phases of different threads were seen concurrently. evaluations = scans run in threads; "
             "non-trivial = runs with >=2 threads in which phase overlap was observed, plus distinct phase pairs",
        samples=stats["samples"],
        extra={"runs": len(runs), "reference_scans": stats["refs"], "yield_points_hit": stats["points"],
               "max_distinct_overlapping_phase_pairs(of 49)": stats["pairs"], "tsan_reports_after_dedup": stats["tsan_reports"],
               "timed_scans_with_real_timeout": stats["timed"], "faulting_scans(SIGBUS handled by the library)": stats.get("fault_scans", 0)},
        assumptions=["schedules are sampled, not enumerated; TSan only sees races between accesses that both occur in a run",
                     "a timeout is only judged when it is reported BEFORE the deadline on the monotonic clock"],
        min_nontrivial=6)
