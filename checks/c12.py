"""C12 - shortcuts and compile-time evaluation never change a verdict.
Oracle: metamorphic, engine vs engine: a rule and its semantics-preserving twins must agree."""
import hashlib
import multiprocessing
import random

from vlib import common, harness, rulegen
from vlib.harness import Case, hx

PID = "C12"
FAST = 1


def cexpr(rng, v, depth=2, leaf=None):
    """A constant expression (text) whose value is v (no overflow, no invalid operand on the way).
    `leaf(v)` may render a leaf differently (e.g. as an external variable that holds v)."""
    if depth <= 0 or rng.random() < 0.2:
        if leaf is not None:
            return leaf(v)
        return "%d" % v if v >= 0 else "(-%d)" % -v
    op = rng.choice(["+", "-", "*", "\\", "%", "&", "|", "^", "<<", ">>", ">>", "~", "neg", "+", "-"])
    sub = lambda x: cexpr(rng, x, depth - 1, leaf)
    if op == "+":
        a = rng.randint(-20, 20)
        return "(%s + %s)" % (sub(v - a), sub(a))
    if op == "-":
        a = rng.randint(-20, 20)
        return "(%s - %s)" % (sub(v + a), sub(a))
    if op == "*":
        for d in (2, 3, 5, 7, -1, -2):
            if v % d == 0 and v != 0:
                return "(%s * %s)" % (sub(v // d), sub(d))
        return "(%s * %s)" % (sub(v), sub(1))
    if op == "\\":
        d = rng.choice([1, 2, 3, 7])
        if v >= 0:
            return "(%s \\ %s)" % (sub(v * d + rng.randint(0, d - 1)), sub(d))
        return "(%s \\ %s)" % (sub(v * d), sub(d))
    if op == "%":
        if v >= 0:
            m = v + rng.randint(1, 50)
            return "(%s %% %s)" % (sub(v + m * rng.randint(0, 3)), sub(m))
        return "(%s + %s)" % (sub(v), sub(0))
    if op == "&":
        if 0 <= v < (1 << 40):
            r = rng.getrandbits(24) & ~v
            pick = rng.getrandbits(24)
            return "(%s & %s)" % (sub(v | (r & pick)), sub(v | (r & ~pick)))
        return "(%s & %s)" % (sub(v), sub(-1))
    if op == "|":
        if v >= 0:
            a = v & rng.randint(0, 1 << 16)
            return "(%s | %s)" % (sub(a), sub(v & ~a))
        return "(%s | %s)" % (sub(v), sub(0))
    if op == "^":
        a = rng.randint(0, 255)
        return "(%s ^ %s)" % (sub(v ^ a), sub(a))
    if op == "<<":
        for s in (3, 2, 1):
            if v % (1 << s) == 0 and v != 0:
                return "(%s << %s)" % (sub(v >> s), sub(s))
        return "(%s << %s)" % (sub(v), sub(0))
    if op == ">>":
        s = rng.choice([0, 1, 2, 4])
        if -(1 << 40) < v < (1 << 40):
            # also for negative values: >> is an arithmetic shift, at compile time and at run time
            return "(%s >> %s)" % (sub((v << s) | rng.randint(0, (1 << s) - 1)), sub(s))
        return "(%s >> %s)" % (sub(v), sub(0))
    if op == "~":
        return "(~%s)" % sub(~v)
    return "(-%s)" % sub(-v)


TEMPLATES = [
    ("${s} at {0}", 1), ("${s} in ({0}..{1})", 2), ("{0} of them", 1), ("@{s}[{0}] == {1}", 2), ("!{s}[{0}] > {1}", 2),
    ("for any i in ({0}..{1}) : (@{s}[i] < {2})", 3), ("#{s} in ({0}..{1}) >= {2}", 3), ("uint8({0}) == {1}", 2),
    ("filesize > {0}", 1), ("any of them in ({0}..{1})", 2), ("all of them at {0}", 1), ("#{s} == {0}", 1),
    ("#{s} + {0} > {1} * 2", 2), ("{0} of them in ({1}..{2})", 3), ("for {0} of them : (@ > {1})", 2),
    ("{0}% of them", 1), ("${s} at {0} and #{s} > {1}", 2), ("for all i in ({0},{1},{2}) : (i > #{s})", 3),
    ("not ${s} at {0}", 1), ("${s} at {0} or ${s2} at {1}", 2), ("uint16be({0}) & {1} == {2}", 3),
    ("defined ${s}", 0), ("defined ${s} at {0}", 1), ("defined any of them", 0), ("defined ${s} in ({0}..{1})", 2),
    ("not ${s}", 0), ("none of them", 0), ("#{s} == 0", 0), ("not defined @{s}[{0}]", 1), ("not any of them in ({0}..{1})", 2),
    ("#{s} < {0}", 1), ("!{s} != {0}", 1),
]


# one-slot templates in which a huge constant is harmless (no loop over it, no arithmetic that could overflow): the value
# is sometimes taken from the boundaries of the 8/16/32/64-bit push instructions
BIGSAFE = {"filesize > {0}", "#{s} < {0}", "!{s} != {0}", "#{s} == {0}", "${s} at {0}", "not ${s} at {0}", "all of them at {0}",
           "defined ${s} at {0}"}
BOUNDS = [255, 256, 257, 65535, 65536, 65537, (1 << 31) - 1, 1 << 31, (1 << 32) - 1, 1 << 32, (1 << 32) + 1, 1 << 33]


def slot_values(rng, tmpl, nslots, nstr, blen):
    if tmpl in BIGSAFE and rng.random() < 0.3:
        return [rng.choice(BOUNDS)]
    vals = []
    if "of them" in tmpl and tmpl.startswith("{0}"):
        vals.append(rng.choice([0] + list(range(1, nstr + 1)) * 2) if "%" not in tmpl else rng.choice([1, 25, 50, 100]))
        rest = nslots - 1
    elif tmpl.startswith("for {0} of"):
        vals.append(rng.choice([0] + list(range(1, nstr + 1)) * 2))
        rest = nslots - 1
    else:
        rest = nslots
    pool = [0, 1, 2, 3, 4, 5, 8, 10, 16, 20, max(0, blen - 4), blen]
    more = sorted(rng.choice(pool) for _ in range(rest))
    if "[{0}]" in tmpl:
        more[0] = rng.choice([1, 1, 2, 3])
    return vals + more


def build_case(seed_cid):
    seed, cid = seed_cid
    rng = random.Random(seed)
    vocab = rulegen.make_vocab(rng, n=6)
    nstr = rng.randint(1, 3)
    strings = [rulegen.gen_string(rng, vocab, "_s%d" % i) for i in range(nstr)]
    sdecl = "\n".join("    $%s = %s" % (s.ident, s.text) for s in strings)
    # buffers with occurrences at small offsets
    bufs = []
    for _ in range(3):
        parts = [bytes(rng.choice(b"qrs .") for _ in range(rng.choice([0, 1, 2, 3, 5, 8])))]
        for _ in range(rng.randint(0, 4)):
            try:
                parts.append(rng.choice(strings).sample(rng))
            except Exception:
                pass
            parts.append(bytes(rng.choice(b"qrs .") for _ in range(rng.choice([0, 1, 2, 6]))))
        bufs.append(b"".join(parts)[:600])
    blen = len(bufs[0])
    rules = []
    ext_defs = {}
    mx_defs = {}
    nrules = rng.randint(2, 5)
    for k in range(nrules):
        tmpl, nslots = rng.choice(TEMPLATES)
        vals = slot_values(rng, tmpl, nslots, nstr, blen)
        s = rng.choice(strings).ident
        s2 = rng.choice(strings).ident
        lit = tmpl.format(*["%d" % v for v in vals], s=s, s2=s2)
        cx = tmpl.format(*[cexpr(rng, v, rng.randint(1, 3)) for v in vals], s=s, s2=s2)
        names = []
        for j, v in enumerate(vals):
            nm = "e%d_%d" % (k, j)
            ext_defs[nm] = v
            names.append(nm)
        ex = tmpl.format(*names, s=s, s2=s2)

        def leaf(x, k=k):
            if rng.random() < 0.5:
                nm = "x%d_%d" % (k, len(mx_defs))
                mx_defs[nm] = x
                return nm
            return "%d" % x if x >= 0 else "(-%d)" % -x
        mx = tmpl.format(*[cexpr(rng, v, rng.randint(1, 3), leaf) for v in vals], s=s, s2=s2)
        rules.append((k, lit, cx, ex, mx))

    def ruleset(form):
        out = []
        for k, lit, cx, ex, mx in rules:
            c = {"lit": lit, "cx": cx, "ex": ex, "mx": mx}[form]
            out.append("rule r%d {\n  strings:\n%s\n  condition:\n    %s\n}" % (k, sdecl, c))
            out.append("rule f%d {\n  strings:\n%s\n  condition:\n    (%s) or filesize < 0\n}" % (k, sdecl, c))
        return "\n".join(out) + "\n"
    nb = len(bufs)
    lines = []
    for j, b in enumerate(bufs):
        lines.append("buf %d %s" % (j, hx(b)))
    plan = []

    def scans(tag, target, fast=True):
        for j in range(nb):
            lines.append("scan %s mem %d 0 0 -" % (target, j))
            plan.append((tag, j, False))
            if fast:
                lines.append("scan %s mem %d %d 0 -" % (target, j, FAST))
                plan.append((tag, j, True))
    # literal form (reference)
    lines += ["cnew 0", "cadd 0 - " + hx(ruleset("lit")), "crules 0 0"]
    scans("lit", "r0")
    # constant-expression form
    lines += ["cnew 0", "cadd 0 - " + hx(ruleset("cx")), "crules 0 0"]
    scans("cx", "r0")
    # atom quality tables: 4-byte windows of the vocabulary with random qualities (+ noise)
    for t in range(2):
        ents = {}
        for w in vocab:
            for form in (w, w.lower(), w.upper(), bytes(x for c in w for x in (c, 0))):
                for i in range(0, max(1, len(form) - 3)):
                    win = form[i:i + 4].ljust(4, b"\x00")
                    if rng.random() < 0.6:
                        ents[win] = rng.choice([0, 1, 5, 50, 200, 255])
        for _ in range(rng.randint(0, 30)):
            ents[bytes(rng.randrange(256) for _ in range(4))] = rng.randrange(256)
        table = b"".join(k + bytes([v]) for k, v in sorted(ents.items()))
        lines += ["cnew 0", "catoms 0 %s %d" % (hx(table), rng.choice([0, 0, 100])), "cadd 0 - " + hx(ruleset("lit")),
                  "crules 0 0"]
        scans("atoms%d" % t, "r0", fast=False)
    # external form, defined with the right value at compile time
    lines += ["cnew 0"] + ["cdef 0 i %s %d" % (hx(nm), v) for nm, v in ext_defs.items()] + \
             ["cadd 0 - " + hx(ruleset("ex")), "crules 0 0"]
    scans("ext", "r0")
    # the constant expressions again, with some leaves replaced by externals holding the same value: the operators now
    # run in the VM instead of being folded by the compiler
    lines += ["cnew 0"] + ["cdef 0 i %s %d" % (hx(nm), v) for nm, v in mx_defs.items()] + \
             ["cadd 0 - " + hx(ruleset("mx")), "crules 0 0"]
    scans("mx", "r0")
    # external form, defined with ANOTHER value at compile time and redefined afterwards
    wrong = {nm: v + rng.choice([1, 2, 3, 7]) for nm, v in ext_defs.items()}
    lines += ["cnew 0"] + ["cdef 0 i %s %d" % (hx(nm), v) for nm, v in wrong.items()] + \
             ["cadd 0 - " + hx(ruleset("ex")), "crules 0 0"]
    # (a) at scanner level
    lines.append("snew 0 0")
    lines += ["sdef 0 i %s %d" % (hx(nm), v) for nm, v in ext_defs.items()]
    scans("redef-scanner", "s0", fast=False)
    # (b) at rule-set level, before the scanner is created
    lines += ["rdef 0 i %s %d" % (hx(nm), v) for nm, v in ext_defs.items()]
    lines.append("snew 0 1")
    scans("redef-rules", "s1", fast=False)
    scans("redef-rules-direct", "r0", fast=False)
    meta = dict(plan=plan, nb=nb, rules=rules, strings=[s.text for s in strings], ext=ext_defs, wrong=wrong,
                bufs=[b.hex() for b in bufs])
    return Case(cid, lines, meta)


INVALID = [
    ("$a in ({hi}..{lo})", "reversed range"), ("for any i in ({hi}..{lo}) : (i > 2)", "reversed loop range"),
    ("$a in ({neg}..{hi})", "negative lower bound"), ("1 << {neg} == 0", "negative shift"),
    ("{hi} \\ {zero} == 1", "division by zero"), ("{hi} % {zero} == 1", "modulo zero"), ("{pct}% of them", "percentage out of range"),
    ("#a in ({hi}..{lo}) > 0", "reversed count range"), ("any of them in ({hi}..{lo})", "reversed of-range"),
    ("$a in ({lo}..{hi})", "valid range"), ("{ok}% of them", "valid percentage"), ("1 << {lo} > 0", "valid shift"),
    ("{hi} \\ {lo1} >= 0", "valid division"),
]


def build_reject_case(seed_cid):
    seed, cid = seed_cid
    rng = random.Random(seed)
    lo = rng.randint(0, 9)
    hi = lo + rng.randint(1, 30)
    vals = dict(lo=lo, hi=hi, neg=-rng.randint(1, 9), zero=0, pct=rng.choice([0, 101, 200, -5]), ok=rng.choice([1, 50, 100]),
                lo1=lo + 1)
    lines = []
    items = []
    for tmpl, what in INVALID:
        lit = tmpl.format(**{k: ("%d" % v if v >= 0 else "(-%d)" % -v) for k, v in vals.items()})
        cx = tmpl.format(**{k: cexpr(rng, v, rng.randint(1, 3)) for k, v in vals.items()})
        for form, cond in (("lit", lit), ("cx", cx)):
            text = 'rule t { strings: $_a = "abc" condition: %s }\n' % cond.replace("$a", "$_a").replace("#a", "#_a")
            lines += ["cnew 0", "cadd 0 - " + hx(text)]
            items.append((what, form, cond))
    return Case(cid, lines, dict(items=items, kind="reject"))


def chained_variable(text):
    """hex string that the compiler splits at a jump of more than 200 bytes (or an unbounded one) and that has
    another element of variable length (a smaller jump range or an alternation)"""
    import re
    if not text.strip().startswith("{"):
        return False
    jumps = re.findall(r"\[(\d*)-(\d*)\]|\[(\d+)\]", text)
    chain = False
    variable = "(" in text
    for lo, hi, single in jumps:
        if single:
            if int(single) > 200:
                chain = True
            continue
        if hi == "" or int(hi) > 200:
            chain = True
            if hi == "" or lo == "" or int(lo or 0) != int(hi):
                variable = variable or (hi == "" or int(lo or 0) != int(hi))
        elif int(lo or 0) != int(hi):
            variable = True
    return chain and variable


def evaluate_reject(chk, case, res, stats):
    if res.status != "ok":
        if res.status in ("crash", "timeout", "leak"):
            key = common.sanitizer_key(res.stderr) if res.status == "crash" else res.status
            chk.violation("reject-case-%s:%s" % (res.status, key), dict(script=case.script(), stderr=res.stderr[-2500:]))
        else:
            chk.inconc(case.cid + ":" + res.status)
        return
    cadds = res.ops("cadd")
    items = case.meta["items"]
    for i in range(0, len(items), 2):
        a, b = cadds[i], cadds[i + 1]
        stats["reject_pairs"] += 1
        ra, rb = a["errors"] != 0, b["errors"] != 0
        if ra:
            stats["rejected_literals"] += 1
        if ra != rb:
            chk.violation("accept-reject-differs", dict(what=items[i][0], literal_form=items[i][2], literal_rejected=ra,
                                                        constant_expression_form=items[i + 1][2], expression_rejected=rb,
                                                        messages=[a["msgs"][:1], b["msgs"][:1]]))
        for x in (a, b):
            if x["errors"] != 0 and any(mm[0] == 0 and not mm[3] for mm in x["msgs"]):
                stats["empty_error_message"] += 1


def evaluate(chk, case, res, stats):
    m = case.meta
    if m.get("kind") == "reject":
        return evaluate_reject(chk, case, res, stats)
    wit_base = {"strings": m["strings"], "rules(k, literal, constant-expression, external, runtime-expression)": m["rules"],
                "externals": m["ext"], "compile_time_values_in_redefinition_variants": m["wrong"], "buffers_hex": m["bufs"],
                "script": case.script()}
    if res.status != "ok":
        if res.status.startswith("flaky") or res.status in ("missing", "harness"):
            chk.inconc("%s: %s" % (case.cid, res.status))
            return
        key = common.sanitizer_key(res.stderr) if res.status == "crash" else (
            common.leak_keys(res.stderr)[0] if res.status == "leak" else "hang")
        chk.violation("%s:%s" % (res.status, key), dict(wit_base, stderr=res.stderr[-3000:]))
        return
    cadds = res.ops("cadd")
    crs = res.ops("crules")
    labels = ["lit", "cx", "atoms0", "atoms1", "ext", "mx", "redef"]
    comp_ok = {}
    for lab, c, r in zip(labels, cadds, crs):
        comp_ok[lab] = c["errors"] == 0 and r["rc"] == 0
    if not comp_ok.get("lit"):
        stats["rejected"] += 1
        stats["reject_msgs"].add(([mm[3] for mm in cadds[0]["msgs"] if mm[0] == 0] or ["?"])[0][:50])
        return
    for lab in labels[1:]:
        if not comp_ok.get(lab):
            errs = [mm[3] for c in cadds for mm in c["msgs"] if mm[0] == 0][:2]
            chk.violation("twin-rejected:" + ("redefined-external" if lab == "redef" else lab), dict(wit_base, errors=errs))
            return
    scans = res.ops("scan")
    ref = {}
    for (tag, j, fast), sc in zip(m["plan"], scans):
        stats["scans"] += 1
        verd = {mm[1]: mm[0] for mm in sc["msgs"] if mm[0] in (1, 2)}
        if tag == "lit" and not fast:
            ref[j] = (verd, sc["matches"], sc["rc"])
            # forced-evaluation twin inside the same compilation
            for k, *_ in m["rules"]:
                if verd.get("default:r%d" % k) != verd.get("default:f%d" % k):
                    chk.violation("forced-evaluation-differs", dict(wit_base, rule=k, buffer=j, plain=verd.get("default:r%d" % k),
                                                                    forced=verd.get("default:f%d" % k)))
            continue
        rv, rm, rrc = ref[j]
        stats["twins"].add((tag, fast))
        if sc["rc"] != rrc:
            chk.violation("scan-rc-differs:" + tag, dict(wit_base, rc=sc["rc"], ref=rrc))
            continue
        if verd != rv:
            bad = sorted(k for k in rv if verd.get(k) != rv[k])
            key = {"lit": "fast-mode-differs", "cx": "constant-expression-differs" + ("-fast" if fast else ""),
                   "ext": "external-differs" + ("-fast" if fast else ""),
                   "mx": "runtime-expression-differs" + ("-fast" if fast else ""), "atoms0": "atom-table-differs",
                   "atoms1": "atom-table-differs"}.get(tag, "redefined-external-ignored")
            chk.violation(key, dict(wit_base, variant=tag, fast_mode=fast, buffer=j, rules_differing=bad[:6],
                                    reference={k: rv[k] for k in bad[:6]}, got={k: verd.get(k) for k in bad[:6]}))
            continue
        if tag.startswith("atoms") and sc["matches"] != rm:
            differing = set()
            for rule in set(rm) | set(sc["matches"]):
                a, b = rm.get(rule, {}), sc["matches"].get(rule, {})
                for ident in set(a) | set(b):
                    if a.get(ident) != b.get(ident):
                        differing.add(ident)
            texts = [m["strings"][int(i.lstrip("$_s"))] for i in differing if i.lstrip("$_s").isdigit()]
            if texts and all(chained_variable(t) for t in texts):
                # the known defect of C02 (chained hex strings with a variable-length piece lose occurrences, which ones
                # depends on the atom the piece is found through) seen from this side
                chk.violation("atom-table-match-lists-differ:chained-variable-piece", dict(wit_base, variant=tag, buffer=j, strings=texts))
            else:
                chk.violation("atom-table-match-lists-differ", dict(wit_base, variant=tag, buffer=j, strings=texts))
    if any(v == 1 for j in ref for v in ref[j][0].values()):
        stats["nontrivial"].add(hashlib.sha256(repr(m["rules"]).encode()).hexdigest())
    if len(stats["samples"]) < 4:
        stats["samples"].append({"strings": m["strings"], "rules": m["rules"][:2]})


def main(args):
    chk = common.Check(PID, args.tier, args.seed)
    exe = harness.get_exe("asan")
    ncases = int((600 if args.tier == "quick" else 10000) * args.scale)
    nrej = int((60 if args.tier == "quick" else 1000) * args.scale) or 1
    rng = chk.rng
    seeds = [(rng.getrandbits(64), "c%d" % i) for i in range(ncases)]
    rseeds = [(rng.getrandbits(64), "rej%d" % i) for i in range(nrej)]
    with multiprocessing.Pool(16) as pool:
        cases = pool.map(build_case, seeds, chunksize=8)
        cases += pool.map(build_reject_case, rseeds, chunksize=8)
    results = harness.run_cases(exe, cases, "c12", cpu=600, batch=4)
    stats = dict(scans=0, nontrivial=set(), samples=[], rejected=0, reject_msgs=set(), twins=set(), reject_pairs=0,
                 rejected_literals=0, empty_error_message=0)
    for c in cases:
        evaluate(chk, c, results[c.cid], stats)
    if stats["rejected"] > 0.25 * ncases:
        print("HARNESS: too many base rule sets rejected: %s" % sorted(stats["reject_msgs"])[:6])
        return common.EXIT_HARNESS
    return chk.finish(
        evaluations=stats["scans"],
        distinct_nontrivial=len(stats["nontrivial"]),
        rule="per generated rule set (text/hex/regex strings; conditions with integer operands after `at`, in ranges, as "
             "`of` quantifier / percentage, as index, loop bound, reader offset, in arithmetic): verdicts of the literal "
             "form are the reference for (a) SCAN_FLAGS_FAST_MODE, (b) two random atom-quality tables built from the "
             "4-byte windows of the strings (verdicts AND match lists), (c) `(C) or filesize < 0`, (d) every integer "
             "replaced by a random constant expression of equal value over + - * \\ % & | ^ << >> ~ -, or by an "
             "external defined with that value, (e) externals compiled with a DIFFERENT value and redefined at scanner "
             "level, at rule-set level before scanner creation, and used through yr_rules_scan_mem; plus accept/reject "
             "agreement between literal and constant-expression forms of rules that range/sign checks must reject. "
             "non-trivial = rule set in which some rule matches; distinct by sha256(conditions)",
        samples=stats["samples"],
        extra={"rule_sets": ncases, "twin_kinds_seen": sorted(map(str, stats["twins"])), "accept_reject_pairs": stats["reject_pairs"],
               "literal_forms_rejected": stats["rejected_literals"], "errors_with_empty_message": stats["empty_error_message"],
               "base_rule_sets_rejected": stats["rejected"], "reject_messages": sorted(stats["reject_msgs"])[:6]},
        assumptions=["fast mode may legitimately shorten match lists, so only verdicts are compared there"],
        min_nontrivial=20)
