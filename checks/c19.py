"""C19 - compiled rules do not depend on how internal storage grew.
Oracle: differential across initial arena capacities (hook H1) under ASan, whose realloc always moves
the block: with tiny capacities / exact growth every arena write relocates its buffer and any raw
pointer held across an allocation becomes a use-after-free the moment it is touched."""
import hashlib
import multiprocessing
import random

from vlib import common, harness, rulegen
from vlib.harness import Case, hx

PID = "C19"
CAPS = [(1, 0), (2, 0), (3, 0), (7, 0), (16, 0), (64, 0), (256, 0), (4096, 0), (65536, 0), (1, 1), (7, 1), (256, 1)]
EXTS = [("xi", "i"), ("xf", "f"), ("xb", "b"), ("xs", "s")]


def build_case(seed_cid, exact_ok=True):
    seed, cid = seed_cid
    rng = random.Random(seed)
    vocab = rulegen.make_vocab(rng)
    nss = ["default"] + ["ns%d" % i for i in range(rng.choice([0, 1, 2]))]
    pool = {}
    mods = ("math", "hash", "pe", "elf") if rng.random() < 0.4 else ()
    for ns in nss:
        lst = []
        for k in range(rng.randint(1, 9)):
            lst.append(rulegen.gen_rule(rng, vocab, "r%d" % k, ns, [r.name for r in lst], ext_names=EXTS, modules=mods))
        pool[ns] = lst
    allrules = [r for ns in nss for r in pool[ns]]
    extra = 'rule zz_loop { condition: for any s in ("ab", "needle") : (xs contains s) or xs matches /a[0-9]+b/ }\n'
    bufs = rulegen.gen_buffers(rng, allrules, n=2)
    lines = []
    for j, b in enumerate(bufs):
        lines.append("buf %d %s" % (j, hx(b)))
    caps = [(0, 0)] + rng.sample(CAPS, 5)
    texts = []
    for ns in nss:
        imps = []
        for r in pool[ns]:
            for mm in r.imports:
                if mm not in imps:
                    imps.append(mm)
        t = "".join('import "%s"\n' % mm for mm in imps) + "\n".join(r.text for r in pool[ns]) + "\n"
        if ns == "default":
            t += extra
        texts.append((ns, t))
    for cap, exact in caps:
        lines.append("arena %d %d" % (cap, exact))
        lines.append("cnew 0")
        lines.append("cdef 0 i %s 7" % hx("xi"))
        lines.append("cdef 0 f %s 1.5" % hx("xf"))
        lines.append("cdef 0 b %s 1" % hx("xb"))
        lines.append("cdef 0 s %s %s" % (hx("xs"), hx(b"xa1b needle")))
        for ns, t in texts:
            lines.append("cadd 0 %s %s" % (hx(ns) if ns != "default" else "-", hx(t)))
        lines.append("crules 0 0")
        lines.append("arena 0 0")
        for j in range(len(bufs)):
            lines.append("scan r0 mem %d 0 0 -" % j)
        lines.append("rsave 0 0 stream 0")
        lines.append("rload 0 1 stream 0")
        lines.append("scan r1 mem 0 0 0 -")
    meta = dict(caps=caps, nb=len(bufs), npieces=len(texts), src="\n".join(t for _n, t in texts)[:5000],
                nstrings=sum(len(r.strings) for r in allrules), nrules=len(allrules))
    return Case(cid, lines, meta)


def evaluate(chk, case, res, stats):
    m = case.meta
    wit_base = {"rule_source": m["src"], "capacities(initial,exact_growth)": m["caps"], "script": case.script()}
    if res.status != "ok":
        if res.status.startswith("flaky") or res.status in ("missing", "harness"):
            chk.inconc("%s: %s" % (case.cid, res.status))
            return
        key = common.sanitizer_key(res.stderr) if res.status == "crash" else (
            common.leak_keys(res.stderr)[0] if res.status == "leak" else "hang")
        chk.violation("%s:%s" % (res.status, key), dict(wit_base, stderr=res.stderr[-3000:]))
        return
    cadds, crs, scans, saves, loads = (res.ops(x) for x in ("cadd", "crules", "scan", "rsave", "rload"))
    npc, nb = m["npieces"], m["nb"]
    ref = None
    for i, (cap, exact) in enumerate(m["caps"]):
        ca = cadds[i * npc:(i + 1) * npc]
        ok = all(c["errors"] == 0 for c in ca) and crs[i]["rc"] == 0
        errs = [[mm[3] for mm in c["msgs"] if mm[0] == 0][:1] for c in ca]
        sc = scans[i * (nb + 1):(i + 1) * (nb + 1)]
        sig = [(s["rc"], s["msgs"], s["matches"]) for s in sc]
        cur = (ok, errs if not ok else None, sig if ok else None, saves[i].get("sha") if ok else None,
               loads[i].get("rc") if ok else None)
        stats["compilations"] += 1
        stats["caps"].add((cap, exact))
        if ref is None:
            ref = cur
            if not ok:
                stats["rejected"] += 1
                return
            continue
        if cur[0] != ref[0] or cur[1] != ref[1]:
            chk.violation("compile-outcome-depends-on-capacity", dict(wit_base, capacity=(cap, exact), errors=errs))
        elif cur[2] != ref[2]:
            chk.violation("scan-results-depend-on-capacity", dict(wit_base, capacity=(cap, exact)))
        elif cur[3] != ref[3]:
            chk.violation("saved-image-depends-on-capacity", dict(wit_base, capacity=(cap, exact), sha=cur[3], sha_default=ref[3]))
        elif cur[4] != 0:
            chk.violation("own-image-does-not-load", dict(wit_base, capacity=(cap, exact), rc=cur[4]))
    stats["nontrivial"].add(hashlib.sha256(m["src"].encode()).hexdigest())
    stats["strings"] += m["nstrings"]
    if len(stats["samples"]) < 4:
        stats["samples"].append({"rules": m["nrules"], "strings": m["nstrings"], "capacities": m["caps"],
                                 "image_sha": ref[3][:16] if ref and ref[3] else None})


def build_large(seed_cid):
    """A rule set big enough to overflow the default 1 MiB buffers, compared with the same rules compiled
    in groups (which stay inside the initial capacity)."""
    seed, cid, nrules = seed_cid
    rng = random.Random(seed)
    rules = []
    for k in range(nrules):
        w = "".join(rng.choice("abcdefghijklmnop") for _ in range(rng.randint(5, 9)))
        kind = k % 4
        if kind == 0:
            s = '$a = "%s%d"' % (w, k)
        elif kind == 1:
            s = '$a = "%s" nocase wide' % w
        elif kind == 2:
            s = "$a = { %s [1-3] %s }" % (" ".join("%02x" % ord(c) for c in w[:4]), " ".join("%02x" % ord(c) for c in w[4:] or "zz"))
        else:
            s = "$a = { %s [%d] %s }" % (" ".join("%02x" % ord(c) for c in w[:4]), 201 + k % 3, " ".join("%02x" % ord(c) for c in w[3:]))
        rules.append((w, "rule L%d : t%d { meta: idx = %d strings: %s condition: $a }" % (k, k % 7, k, s)))
    parts = []
    for k in rng.sample(range(nrules), 60):
        w = rules[k][0]
        kind = k % 4
        if kind == 0:
            parts.append((w + str(k)).encode())
        elif kind == 1:
            parts.append(b"".join(bytes([c, 0]) for c in w.upper().encode()))
        elif kind == 2:
            parts.append(w[:4].encode() + b"xx" + (w[4:] or "zz").encode())
        else:
            parts.append(w[:4].encode() + b"-" * (201 + k % 3) + w[3:].encode())
    buf = b" ".join(parts)
    lines = ["buf 0 " + hx(buf)]
    # all at once
    lines += ["cnew 0", "cadd 0 - " + hx("\n".join(t for _w, t in rules) + "\n"), "crules 0 0", "scan r0 mem 0 8 0 -",
              "stats 0", "cdestroy 0", "rdestroy 0"]
    group = 500
    ng = 0
    for g in range(0, nrules, group):
        lines += ["cnew 0", "cadd 0 - " + hx("\n".join(t for _w, t in rules[g:g + group]) + "\n"), "crules 0 0",
                  "scan r0 mem 0 8 0 -", "cdestroy 0", "rdestroy 0"]
        ng += 1
    return Case(cid, lines, dict(kind="large", nrules=nrules, groups=ng))


def evaluate_large(chk, case, res, stats):
    m = case.meta
    if res.status != "ok":
        if res.status in ("crash", "leak"):
            key = common.sanitizer_key(res.stderr) if res.status == "crash" else common.leak_keys(res.stderr)[0]
            chk.violation("large-rule-set-%s:%s" % (res.status, key), dict(nrules=m["nrules"], stderr=res.stderr[-3000:]))
        else:
            chk.inconc("large: " + res.status)
        return
    scans = res.ops("scan")
    crs = res.ops("crules")
    if any(c["rc"] != 0 for c in crs):
        chk.inconc("large: compile failed")
        return
    whole = {mm[1]: scans[0]["matches"].get(mm[1]) for mm in scans[0]["msgs"] if mm[0] == 1}
    parts = {}
    for sc in scans[1:]:
        for mm in sc["msgs"]:
            if mm[0] == 1:
                parts[mm[1]] = sc["matches"].get(mm[1])
    stats["large_rules"] += m["nrules"]
    stats["large_matching"] += len(whole)
    if whole != parts:
        diff = sorted(set(whole) ^ set(parts))[:10]
        chk.violation("large-rule-set-differs-from-groups", dict(nrules=m["nrules"], differing_rules=diff,
                                                                 only_whole=len(set(whole) - set(parts)),
                                                                 only_groups=len(set(parts) - set(whole))))
    st = res.ops("stats")
    if st:
        stats["large_ac_matches"] = st[0].get("acm")


def main(args):
    chk = common.Check(PID, args.tier, args.seed)
    exe = harness.get_exe("asan")
    ncases = int((250 if args.tier == "quick" else 4000) * args.scale)
    rng = chk.rng
    seeds = [(rng.getrandbits(64), "c%d" % i) for i in range(ncases)]
    with multiprocessing.Pool(16) as pool:
        cases = pool.map(build_case, seeds, chunksize=4)
    nlarge = 1 if args.tier == "quick" else 4
    large = [build_large((rng.getrandbits(64), "large%d" % i, 20000 if args.tier == "quick" else 24000 + 3000 * i)) for i in range(nlarge)]
    results = harness.run_cases(exe, cases + large, "c19", cpu=900, batch=2)
    stats = dict(compilations=0, nontrivial=set(), samples=[], rejected=0, caps=set(), strings=0, large_rules=0,
                 large_matching=0, large_ac_matches=None)
    for c in cases:
        evaluate(chk, c, results[c.cid], stats)
    for c in large:
        evaluate_large(chk, c, results[c.cid], stats)
    return chk.finish(
        evaluations=stats["compilations"],
        distinct_nontrivial=len(stats["nontrivial"]),
        rule="per generated rule set (all string kinds incl. chains, metas, tags with duplicates, several namespaces, "
             "externals, imports, loops, `of`, `matches` operand): compiled with the default capacity and with 5 of the "
             "12 settings {1,2,3,7,16,64,256,4096,65536 bytes doubling; 1,7,256 bytes with EXACT growth, i.e. every "
             "allocation that does not fit relocates its buffer} through hook H1 under ASan (realloc always moves); "
             "compile outcome, scan results on 2 buffers, the saved image (sha256) and a load+scan of that image must be "
             "identical. Plus one rule set of 20000+ rules that outgrows the default 1 MiB buffers, compared rule by "
             "rule with the same rules compiled in groups of 500. evaluations = compilations; non-trivial = rule set "
             "accepted by the compiler; distinct by sha256(rule text)",
        samples=stats["samples"],
        extra={"rule_sets": len(cases), "capacity_settings_used": sorted(stats["caps"]), "strings_compiled": stats["strings"],
               "large_rule_set_rules": stats["large_rules"], "large_rule_set_matching_rules": stats["large_matching"],
               "large_rule_set_ac_matches": stats["large_ac_matches"], "rule_sets_rejected": stats["rejected"]},
        assumptions=["ASan's realloc always returns a new block (verified in this sandbox), so a stale pointer into a grown "
                     "buffer is a detectable use-after-free"],
        min_nontrivial=10)
