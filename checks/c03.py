"""C03 - regular-expression strings and `matches` agree with regex semantics.
Oracle: position-set regex matcher (vlib/m_re.py) vs the engine's match lists / verdicts."""
import hashlib
import multiprocessing
import random

from vlib import common, harness, m_re, m_text
from vlib.harness import Case, hx

PID = "C03"
ERROR_TOO_MANY_RE_FIBERS = 46


def expected_for(ast, buf, modes, nocase, dotall, fullword):
    """-> must(set), may(set), valid {off: set(len)} (non-empty matches only)"""
    cand = {}
    for wide in modes:
        mt = m_re.Matcher(buf, nocase=nocase, dotall=dotall, wide=wide)
        for s in m_re.bits(mt.starts_any(ast)):
            if s >= len(buf):
                continue
            for ln in mt.nonempty_lengths(ast, s):
                st = m_text.SURE
                if fullword:
                    if wide:
                        a = m_text._side_wide(buf, s, ln, 0, True)
                        b = m_text._side_wide(buf, s, ln, 0, False)
                    else:
                        a = m_text._side_ascii(buf, s - 1, 0)
                        b = m_text._side_ascii(buf, s + ln, 0)
                    st = min(a, b)
                cand.setdefault(s, []).append((ln, st))
    must, may, valid = set(), set(), {}
    for s, lst in cand.items():
        if all(st == m_text.SURE for _, st in lst):
            must.add(s)
        if any(st != m_text.NO for _, st in lst):
            may.add(s)
            valid[s] = set(ln for ln, st in lst if st != m_text.NO)
    return must, may, valid


def build_case(seed_cid):
    seed, cid = seed_cid
    rng = random.Random(seed)
    decls = []
    for _ in range(rng.choice([1, 2, 3])):
        w = rng.random()
        modes = (False,) if w < 0.6 else ((True,) if w < 0.85 else (False, True))
        ast, alpha = m_re.gen_regex(rng, wide=(True in modes))
        lazy = rng.random() < 0.35
        nocase = rng.random() < 0.3
        dotall = rng.random() < 0.3
        fullword = rng.random() < 0.2
        src = m_re.render(ast, lazy)
        flags = ""
        mods = []
        if nocase:
            if rng.random() < 0.5:
                flags += "i"
            else:
                mods.append("nocase")
        if dotall:
            flags += "s"
        if modes == (True,):
            mods.append("wide")
        elif modes == (False, True):
            mods += ["ascii", "wide"]
        elif rng.random() < 0.2:
            mods.append("ascii")
        if fullword:
            mods.append("fullword")
        decls.append(dict(ast=ast, alpha=alpha, lazy=lazy, nocase=nocase, dotall=dotall, fullword=fullword,
                          modes=modes, text="/%s/%s %s" % (src, flags, " ".join(mods)), re="/%s/%s" % (src, "".join(sorted(set(flags))))))
    bufs, near = [], []
    for d in decls:
        for _ in range(rng.choice([1, 2])):
            b, nm = m_re.gen_buffer(rng, d["ast"], d["alpha"], wide=(True in d["modes"]), both=(len(d["modes"]) == 2))
            if d["nocase"] and rng.random() < 0.7:
                # the data carries the other case of some letters (the atoms of a nocase string must cover them all)
                from vlib.m_text import _case_flip
                b = _case_flip(b, rng)
            bufs.append(b)
            near.append(nm)
    bufs = bufs[:5]
    exp = [[expected_for(d["ast"], b, d["modes"], d["nocase"], d["dotall"], d["fullword"]) for b in bufs] for d in decls]
    # `matches` operand: a NUL-free buffer
    mstr = None
    mexp = []
    cands = [b for b in bufs if 0 not in b and 0 < len(b) < 900]
    if cands:
        mstr = rng.choice(cands)
        for d in decls:
            mt = m_re.Matcher(mstr, nocase=("i" in d["re"].rsplit("/", 1)[1]), dotall=("s" in d["re"].rsplit("/", 1)[1]))
            mexp.append(mt.starts_any(d["ast"]) != 0)
    # `matches` with a literal operand (may contain NUL bytes)
    lits = []
    small = [b for b in bufs if 0 < len(b) < 250]
    src = []
    for i, d in enumerate(decls):
        if small:
            lb = rng.choice(small)
            fl = d["re"].rsplit("/", 1)[1]
            mt = m_re.Matcher(lb, nocase=("i" in fl), dotall=("s" in fl))
            T = mt.starts_any(d["ast"])
            lits.append((i, lb, T != 0, m_re.bits(T) == [len(lb)]))
            src.append("rule l%d { condition: %s matches %s }" % (i, m_text.quote(lb), d["re"]))
    for i, d in enumerate(decls):
        src.append("rule r%d { strings: $a = %s condition: $a }" % (i, d["text"]))
        if mstr is not None:
            src.append("rule m%d { condition: ext matches %s }" % (i, d["re"]))
    text = "\n".join(src) + "\n"
    lines = ["cnew 0"]
    if rng.random() < 0.25:
        # YR_CONFIG_MAX_MATCH_DATA only limits the bytes copied for the callback; offsets and lengths must not depend on it
        lines.insert(0, "cfg matchdata %d" % rng.choice([0, 1, 2, 5, 64, 4096]))
    if mstr is not None:
        lines.append("cdef 0 s %s %s" % (hx("ext"), hx(mstr)))
    lines += ["cadd 0 - " + hx(text), "crules 0 0"]
    for j, b in enumerate(bufs):
        lines.append("buf %d %s" % (j, hx(b)))
        lines.append("scan r0 mem %d 0 0 -" % j)
    meta = dict(decls=decls, bufs=bufs, exp=exp, src=text, near=near, mstr=mstr, mexp=mexp, lits=lits)
    return Case(cid, lines, meta)


def evaluate(chk, case, res, stats):
    m = case.meta
    wit_base = {"rule_source": m["src"], "script": case.script()}
    if res.status != "ok":
        if res.status.startswith("flaky") or res.status in ("missing", "harness"):
            chk.inconc("%s: %s" % (case.cid, res.status))
            return
        key = common.sanitizer_key(res.stderr) if res.status == "crash" else (
            common.leak_keys(res.stderr)[0] if res.status == "leak" else "hang")
        chk.violation("%s:%s" % (res.status, key), dict(wit_base, stderr=res.stderr[-3000:]))
        return
    cadd = res.ops("cadd")
    crules = res.ops("crules")
    if not cadd or cadd[0]["errors"] != 0 or not crules or crules[0]["rc"] != 0:
        stats["rejected"] += 1
        txt = " ".join(mm[3] for mm in (cadd[0]["msgs"] if cadd else []))
        stats["reject_msgs"].add(txt[:80])
        return
    scans = res.ops("scan")
    for j, sc in enumerate(scans):
        buf = m["bufs"][j]
        if sc["rc"] == ERROR_TOO_MANY_RE_FIBERS:
            stats["fiber_limit"] += 1
            continue
        if sc["rc"] != 0:
            chk.violation("scan-error-rc%d" % sc["rc"], dict(wit_base, scan=j))
            continue
        if sc["inv"]:
            chk.violation("list-invariant:" + sc["inv"][0][0], dict(wit_base, scan=j, inv=sc["inv"]))
        verdicts = {mm[1]: mm[0] for mm in sc["msgs"] if mm[0] in (1, 2)}
        for i, d in enumerate(m["decls"]):
            must, may, valid = m["exp"][i][j]
            rep = sc["matches"].get("default:r%d" % i, {}).get("$a", [])
            stats["pairs"] += 1
            nul = m_re.nullable(d["ast"])
            loopy = m_re.has_counted_loop_over_split(d["ast"])
            chained = m_re.has_chained_lazy_dot_range(d["ast"], d["lazy"])
            h = hashlib.sha256(d["text"].encode() + buf).hexdigest()
            if must and m["near"][min(j, len(m["near"]) - 1)] > 0:
                stats["nontrivial"].add(h)
            stats["shapes"].add((d["lazy"], d["nocase"], d["dotall"], d["fullword"], d["modes"]))
            w = dict(wit_base, string=d["text"], buffer_hex=buf.hex(), expected_must=sorted(must),
                     expected_may=sorted(may), reported=rep)
            zero = set(o for o, ln, _k in rep if ln == 0)
            rpos = set(o for o, ln, _k in rep if ln > 0)
            if zero:
                if nul:
                    chk.violation("zero-length-match-nullable", dict(w, zero_offsets=sorted(zero)[:10]))
                else:
                    chk.violation("zero-length-match", dict(w, zero_offsets=sorted(zero)[:10]))
            missing = must - rpos - zero
            extra = rpos - may
            if chained:
                bad = bool(missing or extra) or any(
                    ln > 0 and off in valid and ln not in valid[off] for off, ln, _k in rep)
                if bad:
                    chk.violation("chained-lazy-dot-range", dict(w, missing=sorted(missing), extra=sorted(extra)))
                continue
            if missing:
                if nul:
                    chk.violation("nullable-expression-missed", dict(w, missing=sorted(missing)))
                elif loopy:
                    chk.violation("counted-repeat-loop-missed", dict(w, missing=sorted(missing)))
                else:
                    chk.violation("missed-occurrence", dict(w, missing=sorted(missing)))
            if extra:
                chk.violation("spurious-match", dict(w, extra=sorted(extra)))
            for off, ln, _k in rep:
                if ln > 0 and off in valid and ln not in valid[off]:
                    chk.violation("impossible-length", dict(w, at=off, length=ln, valid=sorted(valid[off])[:20]))
            v = verdicts.get("default:r%d" % i)
            if v is None or (v == 1) != bool(rep):
                chk.violation("verdict-vs-list", dict(w, verdict=v))
            if len(stats["samples"]) < 6 and must and len(buf) < 80:
                stats["samples"].append({"string": d["text"], "buffer_hex": buf.hex(), "expected": sorted(must)[:8],
                                         "reported": rep[:8]})
        if j == 0:
            for i, lb, want, only_end in m.get("lits", []):
                v = verdicts.get("default:l%d" % i)
                d = m["decls"][i]
                stats["matches_cases"] += 1
                if want:
                    stats["matches_true"] += 1
                if 0 in lb:
                    stats["matches_nul_operand"] = stats.get("matches_nul_operand", 0) + 1
                if v is None or (v == 1) != want:
                    w = dict(wit_base, regex=d["re"], operand_hex=lb.hex(), expected=want, verdict=v)
                    if not (v == 1) and want and only_end:
                        chk.violation("matches-empty-match-at-end", w)
                    elif not (v == 1) and want and m_re.has_counted_loop_over_split(d["ast"]):
                        chk.violation("counted-repeat-loop-missed", w)
                    else:
                        chk.violation("matches-operator", w)
        if j == 0 and m["mstr"] is not None:
            for i, d in enumerate(m["decls"]):
                v = verdicts.get("default:m%d" % i)
                want = m["mexp"][i]
                stats["matches_cases"] += 1
                if want:
                    stats["matches_true"] += 1
                if v is None or (v == 1) != want:
                    w = dict(wit_base, regex=d["re"], operand_hex=m["mstr"].hex(), expected=want, verdict=v)
                    mt = m_re.Matcher(m["mstr"], nocase=("i" in d["re"].rsplit("/", 1)[1]),
                                      dotall=("s" in d["re"].rsplit("/", 1)[1]))
                    only_end = m_re.bits(mt.starts_any(d["ast"])) == [len(m["mstr"])]
                    if not (v == 1) and want and only_end:
                        chk.violation("matches-empty-match-at-end", w)
                    elif not (v == 1) and want and m_re.has_counted_loop_over_split(d["ast"]):
                        chk.violation("counted-repeat-loop-missed", w)
                    else:
                        chk.violation("matches-operator", w)


def exhaustive_cases():
    """All expressions with <= 4 AST nodes over {a,b} x all buffers of length <= 6 over {a,b}."""
    import itertools
    atoms = [m_re.lit(0x61), m_re.lit(0x62), ("dot",)]
    quants = [("*", 0, None), ("+", 1, None), ("?", 0, 1), ("n", 2, 2), ("nm", 1, 2), ("nm", 0, 2), ("n,", 2, None),
              ("n", 3, 3), ("nm", 2, 4), ("nm", 1, 3)]
    exprs = []
    # 2-3 leaf shapes
    for a in atoms:
        for b in atoms:
            exprs.append(("cat", [a, b]))
            for q in quants:
                exprs.append(("cat", [a, ("rep", b, q[1], q[2], q[0])]))
                exprs.append(("cat", [("rep", a, q[1], q[2], q[0]), b]))
            for c in atoms[:2]:
                exprs.append(("cat", [a, ("grp", ("alt", [b, c]))]))
                exprs.append(("cat", [("grp", ("alt", [("cat", [a, b]), c])), c]))
                for q in quants:
                    exprs.append(("cat", [a, ("rep", ("grp", ("alt", [b, c])), q[1], q[2], q[0]), a]))
                    exprs.append(("cat", [("rep", ("grp", ("cat", [a, b])), q[1], q[2], q[0]), c]))
    bufs = []
    for n in range(0, 7):
        for t in itertools.product(b"ab", repeat=n):
            bufs.append(bytes(t))
    return exprs, bufs


def build_exh_case(args):
    cid, ast, lazy, bufs = args
    d = dict(ast=ast, alpha=[0x61, 0x62], lazy=lazy, nocase=False, dotall=False, fullword=False, modes=(False,),
             text="/%s/" % m_re.render(ast, lazy), re="/%s/" % m_re.render(ast, lazy))
    exp = [[expected_for(ast, b, (False,), False, False, False) for b in bufs]]
    text = "rule r0 { strings: $a = %s condition: $a }\n" % d["text"]
    lines = ["cnew 0", "cadd 0 - " + hx(text), "crules 0 0"]
    for j, b in enumerate(bufs):
        lines.append("buf 0 %s" % hx(b))
        lines.append("scan r0 mem 0 0 0 -")
    return Case(cid, lines, dict(decls=[d], bufs=bufs, exp=exp, src=text, near=[1] * len(bufs), mstr=None, mexp=[]))


def main(args):
    chk = common.Check(PID, args.tier, args.seed)
    exe = harness.get_exe("asan")
    ncases = int((1800 if args.tier == "quick" else 30000) * args.scale)
    rng = chk.rng
    seeds = [(rng.getrandbits(64), "c%d" % i) for i in range(ncases)]
    with multiprocessing.Pool(16) as pool:
        cases = pool.map(build_case, seeds, chunksize=16)
        exprs, xbufs = exhaustive_cases()
        if args.tier == "quick":
            exprs = rng.sample(exprs, int(60 * args.scale) or 1)
        xargs = []
        for k, e in enumerate(exprs):
            lazy = (k % 3 == 0)
            xargs.append(("x%d" % k, e, lazy, xbufs))
        xcases = pool.map(build_exh_case, xargs, chunksize=4)
    stats = dict(pairs=0, nontrivial=set(), samples=[], rejected=0, reject_msgs=set(), fiber_limit=0, shapes=set(),
                 matches_cases=0, matches_true=0)
    results = harness.run_cases(exe, cases + xcases, "c03", cpu=300)
    for c in cases + xcases:
        evaluate(chk, c, results[c.cid], stats)
    if stats["rejected"] > 0.05 * len(cases) or stats["fiber_limit"] > 0.05 * max(1, stats["pairs"]):
        print("HARNESS: too many generated expressions rejected (%d: %s) or fiber-limited (%d)" % (
            stats["rejected"], sorted(stats["reject_msgs"])[:5], stats["fiber_limit"]))
        return common.EXIT_HARNESS
    return chk.finish(
        evaluations=stats["pairs"] + stats["matches_cases"],
        distinct_nontrivial=len(stats["nontrivial"]),
        rule="(regex string, buffer) pairs: random ASTs (depth<=4, <=12 atoms; literals, escapes, classes, dot, groups, "
             "alternation incl. empty branch, * + ? {n} {n,} {,m} {n,m} all-greedy or all-lazy, ^ $ \\b \\B, /i /s "
             "nocase ascii wide fullword) on buffers built from sampled words of the language, near-misses and "
             "filler; `matches` evaluated on a NUL-free buffer through a string external; plus a small-scope sweep of "
             "short expressions over {a,b,.} on ALL buffers of length<=6. non-trivial = model expects >=1 non-empty "
             "match and the buffer holds a near-miss; distinct by sha256(string, buffer)",
        samples=stats["samples"],
        extra={"compilations": len(cases) + len(xcases), "matches_operator_cases": stats["matches_cases"],
               "matches_operator_true": stats["matches_true"],
               "matches_operands_with_NUL": stats.get("matches_nul_operand", 0), "modifier_shapes": len(stats["shapes"]),
               "expressions_rejected_by_compiler": stats["rejected"], "reject_messages": sorted(stats["reject_msgs"])[:5],
               "scans_hitting_fiber_limit": stats["fiber_limit"], "small_scope_expressions": len(xcases),
               "small_scope_buffers_each": 127},
        assumptions=["fullword on variable-length expressions: sandwich (all lengths delimited => must, none => must not)",
                     "\\b/\\B are not generated for wide strings (manual silent)",
                     "expressions rejected by the compiler (size/complexity) are counted, not judged (C15's subject)"],
        min_nontrivial=20)
