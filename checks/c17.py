"""C17 - incomplete or damaged compiled-rule files are rejected, never half-loaded.
Oracle: return code of yr_rules_load_stream on every cut point / field corruption; when a damaged
file is accepted, its behaviour (under ASan, one case per point) must equal the intact rules'."""
import hashlib
import os
import random
import struct

from vlib import common, harness, rulegen
from vlib.harness import Case, hx

PID = "C17"
HDR = 6
ENT = 12


def parse_image(img):
    magic, ver, nb = img[:4], img[4], img[5]
    table = []
    for i in range(nb):
        off, size = struct.unpack_from("<QI", img, HDR + ENT * i)
        table.append((off, size))
    data_end = max([o + s for o, s in table if s] or [HDR + ENT * nb])
    return nb, table, data_end


def rule_sets(rng):
    vocab = rulegen.make_vocab(rng)
    tiny = "rule t { condition: filesize > 3 }\n"
    small = ('rule a : tag1 { meta: m = "v" strings: $a = "needle" $b = { 6e 65 [1-3] 64 } condition: any of them }\n'
             'rule b { strings: $r = /ne+dle[0-9]?/ condition: #r > 0 and a }\n'
             'global rule g { condition: filesize < 100000 }\n')
    med = []
    for k in range(rng.randint(6, 14)):
        med.append(rulegen.gen_rule(rng, vocab, "r%d" % k, "default", [r.name for r in med]))
    medium = "\n".join(r.text for r in med) + "\n"
    bufs = [b"xx needle neeedle7 yy", b"", rulegen.gen_buffers(rng, med, n=1)[0]]
    return [("tiny", tiny), ("small", small), ("medium", medium)], bufs


def make_images(exe, sets, bufs, wd):
    """Compile + save each rule set; returns list of (name, bytes, intact scan signatures)."""
    lines = []
    for j, b in enumerate(bufs):
        lines.append("buf %d %s" % (j, hx(b)))
    for name, text in sets:
        lines += ["cnew 0", "cadd 0 - " + hx(text), "crules 0 0", "rsave 0 0 stream 0", "imgget 0"]
        for j in range(len(bufs)):
            lines.append("scan r0 mem %d 0 0 -" % j)
    res = harness.run_cases(exe, [Case("mk", lines)], "c17mk", cpu=120)["mk"]
    if res.status != "ok":
        raise common.HarnessFailure("cannot build reference images: %s %s" % (res.status, res.stderr[-500:]))
    imgs = res.ops("imgget")
    scans = res.ops("scan")
    out = []
    nb = len(bufs)
    for i, (name, text) in enumerate(sets):
        if res.ops("cadd")[i]["errors"] != 0:
            continue
        data = bytes.fromhex(imgs[i]["hex"])
        sig = [(s["rc"], s["msgs"], s["matches"]) for s in scans[i * nb:(i + 1) * nb]]
        path = os.path.join(wd, "img_%s.yarc" % name)
        with open(path, "wb") as f:
            f.write(data)
        out.append((name, data, sig, path))
    return out


def load_case(cid, path, op, nbufs, bufs_lines, chunk):
    lines = list(bufs_lines) + ["imgfile 0 " + path, op, "rload 1 1 %s" % chunk]
    for j in range(nbufs):
        lines.append("scan r1 mem %d 0 0 -" % j)
    return lines


def main(args):
    chk = common.Check(PID, args.tier, args.seed, level="fault_enumeration")
    exe = harness.get_exe("asan")
    rng = chk.rng
    wd = harness.workdir("c17img")
    sets, bufs = rule_sets(rng)
    images = make_images(exe, sets, bufs, wd)
    bufs_lines = ["buf %d %s" % (j, hx(b)) for j, b in enumerate(bufs)]
    cases = []
    exhaustive_all = True
    for name, data, sig, path in images:
        nb, table, data_end = parse_image(data)
        n = len(data)
        bounds = {0, HDR, HDR + ENT * nb, data_end, n - 1}
        for o, s in table:
            bounds.add(o)
            bounds.add(o + s)
        pts = set()
        for b in bounds:
            for d in (-2, -1, 0, 1, 2):
                if 0 <= b + d < n:
                    pts.add(b + d)
        if args.tier == "thorough" and n <= 65536:
            pts.update(range(0, n))
        else:
            k = int(500 * args.scale)
            exhaustive_all = exhaustive_all and n <= k
            pts.update(rng.sample(range(0, n), min(n, k)))
            # relocation table entries: every 8-byte boundary near its start and end, plus a sample
            rel = list(range(data_end, n, 8))
            pts.update(rel[:6] + rel[-6:] + rng.sample(rel, min(len(rel), 40)))
        for p in sorted(pts):
            chunk = "stream %d" % rng.choice([0, 0, 1, 7]) if rng.random() < 0.8 else "file 0"
            cases.append(Case("%s_cut%d" % (name, p), load_case(None, path, "imgcut 0 1 %d" % p, len(bufs), bufs_lines, chunk),
                              dict(kind="cut", image=name, at=p, n=n, data_end=data_end, sig=sig)))
        # header and table corruptions
        pokes = []
        for i in range(4):
            pokes.append((i, bytes([data[i] ^ 0x20]), "magic[%d]" % i))
        for v in (0, 1, data[4] - 1, data[4] + 1, 255):
            pokes.append((4, bytes([v & 255]), "version=%d" % (v & 255)))
        for v in range(256):
            if v != nb:
                pokes.append((5, bytes([v]), "num_buffers=%d" % v))
        for i, (o, s) in enumerate(table):
            for v in (0, 1, o - 1, o + 1, (1 << 31) - 1, (1 << 32) - 1, (1 << 63)):
                if v >= 0 and v != o:
                    pokes.append((HDR + ENT * i, struct.pack("<Q", v), "table[%d].offset=%d" % (i, v)))
            for v in (0, 1, s - 1, s + 1, s - 8, s + 8, s + 16, s - 16, s + 64, s * 2, s // 2, (1 << 31) - 1, (1 << 32) - 1):
                if 0 <= v != s:
                    pokes.append((HDR + ENT * i + 8, struct.pack("<I", v), "table[%d].size=%d" % (i, v)))
        for off, val, what in pokes:
            cases.append(Case("%s_poke_%s" % (name, what.replace("=", "_").replace("[", "").replace("]", "").replace(".", "_")),
                              load_case(None, path, "imgpoke 0 1 %d %s" % (off, val.hex()), len(bufs), bufs_lines, "stream 0"),
                              dict(kind="poke", image=name, what=what, n=n, data_end=data_end, sig=sig)))
    results = harness.run_cases(exe, cases, "c17", cpu=120, batch=40)
    stats = dict(cuts=0, pokes=0, rejected=0, accepted_identical=0, nontrivial=set(), samples=[], kinds=set(), codes={})
    for c in cases:
        m = c.meta
        r = results[c.cid]
        where = ("cut at byte %d of %d (%s image; relocation table starts at %d)" % (m["at"], m["n"], m["image"], m["data_end"])
                 if m["kind"] == "cut" else "%s image, header/table field %s" % (m["image"], m["what"]))
        in_reloc = m["kind"] == "cut" and m["at"] >= m["data_end"]
        stats["cuts" if m["kind"] == "cut" else "pokes"] += 1
        w = dict(where=where, script="\n".join(l for l in c.lines if not l.startswith("buf ")))
        if r.status in ("missing", "harness") or r.status.startswith("flaky"):
            chk.inconc("%s: %s" % (c.cid, r.status))
            continue
        loads = r.ops("rload")
        accepted = bool(loads) and loads[0]["rc"] == 0
        if in_reloc and (accepted or r.status != "ok"):
            chk.violation("truncated-inside-relocation-table-accepted", dict(w, status=r.status))
            continue
        if r.status != "ok":
            key = common.sanitizer_key(r.stderr) if r.status == "crash" else (
                common.leak_keys(r.stderr)[0] if r.status == "leak" else "hang")
            phase = "after-accepting" if accepted else "while-loading"
            chk.violation("%s-%s:%s" % (r.status, phase, key), dict(w, stderr=r.stderr[-2500:]))
            continue
        rc = loads[0]["rc"]
        stats["codes"][rc] = stats["codes"].get(rc, 0) + 1
        if not accepted:
            stats["rejected"] += 1
            if len(stats["samples"]) < 6 and (stats["rejected"] % 97 == 1):
                stats["samples"].append({"point": where, "load_rc": rc, "outcome": "rejected, no rules returned"})
            if loads[0].get("nonnull"):
                chk.violation("error-but-rules-returned", w)
            stats["nontrivial"].add(c.cid)
            stats["kinds"].add((m["image"], m["kind"]))
            continue
        sig = [(s["rc"], s["msgs"], s["matches"]) for s in r.ops("scan")]
        want = [(a, b, cc) for a, b, cc in m["sig"]]
        if [list(x) for x in sig] != [list(x) for x in want]:
            chk.violation("damaged-file-accepted-and-behaves-differently", dict(w, got=sig[0][:2], intact=want[0][:2]))
        else:
            stats["accepted_identical"] += 1
            if m["kind"] == "cut":
                chk.violation("strict-prefix-accepted", w)
        if len(stats["samples"]) < 6:
            stats["samples"].append({"point": where, "load_rc": rc})
    import shutil
    shutil.rmtree(wd, ignore_errors=True)
    return chk.finish(
        evaluations=len(cases),
        distinct_nontrivial=len(stats["nontrivial"]),
        rule="files saved by the library for a tiny, a small and a generated medium rule set; cut points: every region "
             "boundary (header, buffer table, each buffer, relocation table) +-2 bytes, relocation-entry boundaries, and "
             "500 sampled interior points per file in the quick tier / EVERY prefix length for files <= 64 KiB in the "
             "thorough tier; corruptions: each magic byte, version in {0,1,v-1,v+1,255}, num_buffers in 0..255, every "
             "buffer-table offset field set to {0,1,v-1,v+1,2^31-1,2^32-1,2^63} and every size field to those plus "
             "{v-16,v-8,v+8,v+16,v+64,v/2,2v}. One harness case per point "
             "(loads through a chunked stream or a file), a load that succeeds is followed by scans compared with the "
             "intact rules, all under ASan+LSan. non-trivial = damaged file that was rejected with an error and no rules",
        samples=stats["samples"],
        extra={"cut_points": stats["cuts"], "field_corruptions": stats["pokes"], "rejected": stats["rejected"],
               "accepted_with_identical_behaviour": stats["accepted_identical"], "load_return_codes": stats["codes"],
               "images": [(n, len(d)) for n, d, _s, _p in images]},
        assumptions=["a corruption that is accepted and leaves behaviour identical is not judged"],
        min_nontrivial=50, exhaustive=(args.tier == "thorough"))
