"""C02 - hex-string matches are exactly the documented occurrences.
Oracle: set-of-positions matcher over the hex AST (vlib/m_hex.py) vs the engine's match lists."""
import hashlib
import random

from vlib import common, harness, m_hex
from vlib.harness import Case, hx

PID = "C02"
FAST_REGEXP = 0x40
CHAIN_PART = 0x2000


def gen_ok_pattern(rng):
    for _ in range(50):
        seq, alpha = m_hex.gen_pattern(rng)
        ps, _ = m_hex.pieces(seq)
        ok = True
        for p in ps:
            lo, hi = m_hex.seq_minmax(p)
            if hi is None or hi > 700 or not p or p[0][0] == "j" or p[-1][0] == "j":
                ok = False
        if ok:
            return seq, alpha
    return [("b", 1, 0xFF, False), ("b", 2, 0xFF, False)], [1, 2, 3]


def build_case(rng, cid):
    npat = rng.choice([1, 1, 2, 3])
    pats = [gen_ok_pattern(rng) for _ in range(npat)]
    bufs = []
    near = []
    for seq, alpha in pats:
        for _ in range(rng.choice([1, 2])):
            b, nm = m_hex.gen_buffer(rng, seq, alpha)
            bufs.append(b)
            near.append(nm)
    bufs = bufs[:6]
    src = []
    for i, (seq, alpha) in enumerate(pats):
        src.append("rule r%d { strings: $h = { %s } condition: $h }" % (i, m_hex.render(seq, rng)))
    text = "\n".join(src) + "\n"
    lines = ["dumpac 2", "cnew 0", "cadd 0 - " + hx(text), "crules 0 0"]
    if rng.random() < 0.25:
        # YR_CONFIG_MAX_MATCH_DATA only limits the bytes copied for the callback; offsets and lengths must not depend on it
        lines.insert(0, "cfg matchdata %d" % rng.choice([0, 1, 2, 5, 64, 4096]))
    for j, b in enumerate(bufs):
        lines.append("buf %d %s" % (j, hx(b)))
        lines.append("scan r0 mem %d 0 0 -" % j)
    return Case(cid, lines, dict(pats=pats, bufs=bufs, src=text, near=near))


def bulk_case(rng, cid, n=500):
    """hundreds of literal strings of one length that agree up to an embedded 00 byte: the compiler's string pool (a hash
    table keyed by the raw bytes) must keep them apart; every one is planted once"""
    prefix = [rng.choice([0x4D, 0x61, 0x90]), rng.randrange(256), rng.randrange(256), 0x00]
    seen = set()
    pats = []
    while len(pats) < n:
        tail = tuple(rng.randrange(256) for _ in range(4))
        if tail in seen:
            continue
        seen.add(tail)
        pats.append(([("b", v, 0xFF, False) for v in prefix + list(tail)], prefix + list(tail)))
    order = list(range(n))
    rng.shuffle(order)
    buf = b"".join(bytes(pats[i][1]) + bytes(rng.choice(b"xyz ") for _ in range(rng.choice([0, 1, 3]))) for i in order)
    src = ["rule r%d { strings: $h = { %s } condition: $h }" % (i, m_hex.render(seq, rng)) for i, (seq, _a) in enumerate(pats)]
    text = "\n".join(src) + "\n"
    lines = ["cnew 0", "cadd 0 - " + hx(text), "crules 0 0", "buf 0 " + hx(buf), "scan r0 mem 0 0 0 -"]
    return Case(cid, lines, dict(pats=pats, bufs=[buf], src=text[:3000] + "...", near=[1]))


def evaluate(chk, case, res, stats):
    m = case.meta
    wit_base = {"rule_source": m["src"], "script": case.script()}
    if res.status != "ok":
        if res.status.startswith("flaky") or res.status in ("missing", "harness"):
            chk.inconc("%s: %s" % (case.cid, res.status))
            return
        key = common.sanitizer_key(res.stderr) if res.status == "crash" else (
            common.leak_keys(res.stderr)[0] if res.status == "leak" else "hang")
        chk.violation("%s:%s" % (res.status, key), dict(wit_base, stderr=res.stderr[-3000:]))
        return
    cadd = res.ops("cadd")
    crules = res.ops("crules")
    if not cadd or cadd[0]["errors"] != 0 or not crules or crules[0]["rc"] != 0:
        stats["rejected"] += 1
        msgs = cadd[0]["msgs"] if cadd else []
        txt = " ".join(mm[3] for mm in msgs)
        if "too large" in txt or "too complex" in txt:
            return
        chk.violation("legal-hex-string-rejected", dict(wit_base, compile=cadd))
        return
    info = crules[0]
    for st in info.get("allstrings", []):
        fl = st[1]
        stats["sig"].add((bool(fl & FAST_REGEXP), bool(fl & CHAIN_PART)))
        if fl & FAST_REGEXP:
            stats["fast"] += 1
        else:
            stats["general"] += 1
    for k, v in info.get("ac", {}).items():
        stats["bt"].add(tuple(v[:4]))
    scans = res.ops("scan")
    for j, sc in enumerate(scans):
        buf = m["bufs"][j]
        if sc["rc"] != 0:
            chk.violation("scan-error-rc%d" % sc["rc"], dict(wit_base, scan=j))
            continue
        if sc["inv"]:
            chk.violation("list-invariant:" + sc["inv"][0][0], dict(wit_base, scan=j, inv=sc["inv"]))
        mt = m_hex.Matcher(buf)
        verdicts = {mm[1]: mm[0] for mm in sc["msgs"] if mm[0] in (1, 2)}
        for i, (seq, alpha) in enumerate(m["pats"]):
            exp = set(mt.match_offsets(seq))
            rep = sc["matches"].get("default:r%d" % i, {}).get("$h", [])
            rset = set(r[0] for r in rep)
            stats["pairs"] += 1
            chained = m_hex.is_chained(seq)
            if chained:
                stats["chained_pairs"] += 1
            h = hashlib.sha256(m_hex.render(seq).encode() + buf).hexdigest()
            if exp and m["near"][min(j, len(m["near"]) - 1)] > 0:
                stats["nontrivial"].add(h)
            w = dict(wit_base, pattern=m_hex.render(seq), buffer_hex=buf.hex(), expected=sorted(exp), reported=rep,
                     chained=chained)
            missing = exp - rset
            extra = rset - exp
            if missing:
                if chained and m_hex.has_variable_piece(seq):
                    chk.violation("chained-variable-piece-missed", dict(w, missing=sorted(missing)))
                else:
                    chk.violation("missed-occurrence" + ("-chained" if chained else ""), dict(w, missing=sorted(missing)))
            if extra:
                chk.violation("spurious-match" + ("-chained" if chained else ""), dict(w, extra=sorted(extra)))
            for off, ln, key in rep:
                if off in exp and not mt.valid_length(seq, off, ln):
                    chk.violation("impossible-length", dict(w, at=off, length=ln))
            v = verdicts.get("default:r%d" % i)
            if v is None or (v == 1) != bool(rep):
                chk.violation("verdict-vs-list", dict(w, verdict=v))
            if len(stats["samples"]) < 6 and exp and chained:
                stats["samples"].append({"pattern": m_hex.render(seq), "buffer_len": len(buf),
                                         "expected": sorted(exp)[:8], "reported": rep[:8]})


def main(args):
    chk = common.Check(PID, args.tier, args.seed)
    exe = harness.get_exe("asan")
    ncases = int((2200 if args.tier == "quick" else 30000) * args.scale)
    rng = chk.rng
    cases = [build_case(random.Random(rng.getrandbits(64)), "c%d" % i) for i in range(ncases)]
    cases += [bulk_case(random.Random(rng.getrandbits(64)), "bulk%d" % i) for i in range(2 if args.tier == "quick" else 12)]
    results = harness.run_cases(exe, cases, "c02", cpu=300)
    stats = dict(sig=set(), bt=set(), pairs=0, chained_pairs=0, nontrivial=set(), samples=[], rejected=0, fast=0,
                 general=0)
    for c in cases:
        evaluate(chk, c, results[c.cid], stats)
    if stats["rejected"] > 0.03 * len(cases):
        print("HARNESS: too many generated patterns rejected (%d)" % stats["rejected"])
        return common.EXIT_HARNESS
    return chk.finish(
        evaluations=stats["pairs"],
        distinct_nontrivial=len(stats["nontrivial"]),
        rule="(hex pattern, buffer) pairs: patterns generated over hex_grammar.y (bytes, nibble masks, ~negation, "
             "jumps on both sides of the 200-byte chaining threshold, nested alternatives), buffers assembled from "
             "satisfying instances, near-misses (gap one below/above a bound, one wrong byte) and multi-head/multi-tail "
             "arrangements. non-trivial = model expects >=1 match and the buffer holds a near-miss arrangement; distinct "
             "by sha256(pattern, buffer)",
        samples=stats["samples"],
        extra={"compilations": len(cases), "chained_pairs": stats["chained_pairs"],
               "strings_fast_matcher": stats["fast"], "strings_general_matcher": stats["general"],
               "distinct_backtrack_signatures": len(stats["bt"]), "patterns_rejected_by_compiler": stats["rejected"]},
        assumptions=["no un-split piece of a generated pattern can exceed 700 bytes (engine window 1024)",
                     "any length the pattern can match at a reported offset is accepted"],
        min_nontrivial=20)
