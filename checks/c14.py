"""C14 - hash, math and string module functions compute their definitions.
Oracle: hashlib / zlib / byte sums and the mathematical definitions computed in Python; rules
compare the module's result with the reference (or test `not defined`)."""
import hashlib
import math
import multiprocessing
import random
import zlib

from vlib import common, harness
from vlib.harness import Case, hx
from vlib.m_cond import qstr

PID = "C14"
UNDEF = None


def addressed(buf, off, size):
    """bytes addressed by (offset, size): clipped at the end; None (undefined) when the offset lies outside."""
    n = len(buf)
    if off < 0 or size < 0 or off >= n:
        return UNDEF
    return buf[off:min(n, off + size)]


def ffmt(x):
    return "%.12f" % x


def in_range(expr, val, tol=1e-6):
    t = max(tol, abs(val) * 1e-9)
    return "math.in_range(%s, %s, %s)" % (expr, ffmt(val - t), ffmt(val + t))


def entropy(data):
    if not data:
        return None
    cnt = [0] * 256
    for b in data:
        cnt[b] += 1
    n = len(data)
    return -sum((c / n) * math.log2(c / n) for c in cnt if c)


def serial_correlation(data):
    n = len(data)
    if n == 0:
        return None
    t1 = t2 = t3 = 0.0
    last = 0.0
    for i, b in enumerate(data):
        x = float(b)
        t1 += last * x
        t2 += x
        t3 += x * x
        last = x
    t1 += last * float(data[0])
    t2 = t2 * t2
    scc = n * t3 - t2
    if scc == 0:
        return -100000.0
    return (n * t1 - t2) / scc


def monte_carlo_pi(data):
    incirc = (256.0 ** 3 - 1) ** 2
    m = inm = 0
    for i in range(0, len(data) - 5, 6):
        mx = (data[i] * 256.0 + data[i + 1]) * 256.0 + data[i + 2]
        my = (data[i + 3] * 256.0 + data[i + 4]) * 256.0 + data[i + 5]
        m += 1
        if mx * mx + my * my <= incirc:
            inm += 1
    if m == 0:
        return None
    mpi = 4.0 * inm / m
    return abs((mpi - math.pi) / math.pi)


def hash_conditions(buf, off, size):
    d = addressed(buf, off, size)
    out = []
    for alg in ("md5", "sha1", "sha256"):
        e = "hash.%s(%d, %d)" % (alg, off, size)
        out.append((alg, "not defined " + e if d is UNDEF else '%s == "%s"' % (e, getattr(hashlib, alg)(d).hexdigest())))
    e = "hash.crc32(%d, %d)" % (off, size)
    out.append(("crc32", "not defined " + e if d is UNDEF else "%s == %d" % (e, zlib.crc32(d) & 0xFFFFFFFF)))
    e = "hash.checksum32(%d, %d)" % (off, size)
    out.append(("checksum32", "not defined " + e if d is UNDEF else "%s == %d" % (e, sum(d) & 0xFFFFFFFF)))
    return out


def math_conditions(rng, buf, off, size):
    d = addressed(buf, off, size)
    out = []
    a = "%d, %d" % (off, size)
    if d is UNDEF:
        for fn in ("entropy", "mean", "serial_correlation", "monte_carlo_pi", "mode"):
            out.append((fn + "-undef", "not defined math.%s(%s)" % (fn, a)))
        out.append(("deviation-undef", "not defined math.deviation(%s, 10.0)" % a))
        out.append(("count-undef", "not defined math.count(65, %s)" % a))
        out.append(("percentage-undef", "not defined math.percentage(65, %s)" % a))
        return out
    if len(d) == 0:
        return out     # empty range: the manual does not say (0/0)
    n = len(d)
    mean = sum(d) / n
    out.append(("mean", in_range("math.mean(%s)" % a, mean)))
    out.append(("entropy", in_range("math.entropy(%s)" % a, entropy(d))))
    mval = rng.choice([mean, 127.5, 0.0, 65.0])
    dev = sum(abs(b - mval) for b in d) / n
    out.append(("deviation", in_range("math.deviation(%s, %s)" % (a, ffmt(mval)), dev)))
    byte = rng.choice(list(d) + [0, 255, 65])
    out.append(("count", "math.count(%d, %s) == %d" % (byte, a, d.count(byte))))
    out.append(("percentage", in_range("math.percentage(%d, %s)" % (byte, a), d.count(byte) / n, 1e-5)))
    cnt = [d.count(x) for x in range(256)]
    top = max(cnt)
    if cnt.count(top) == 1:
        out.append(("mode", "math.mode(%s) == %d" % (a, cnt.index(top))))
    sc = serial_correlation(d)
    out.append(("serial_correlation", in_range("math.serial_correlation(%s)" % a, sc, 1e-5)))
    mc = monte_carlo_pi(d)
    out.append(("monte_carlo_pi", "not defined math.monte_carlo_pi(%s)" % a if mc is None else
                in_range("math.monte_carlo_pi(%s)" % a, mc)))
    return out


def strtoll(s, base):
    """C strtoll on a NUL-terminated string, full-consumption required (as documented: leading +/-, 0x, 0)."""
    if b"\x00" in s:
        s = s[:s.index(b"\x00")]
    i = 0
    while i < len(s) and s[i] in b" \t\n\v\f\r":
        i += 1
    neg = False
    if i < len(s) and s[i] in b"+-":
        neg = s[i] == 0x2d
        i += 1
    b = base
    if (b == 0 or b == 16) and s[i:i + 2].lower() == b"0x" and i + 2 < len(s) and chr(s[i + 2]).lower() in "0123456789abcdef":
        i += 2
        b = 16
    elif b == 0:
        b = 8 if s[i:i + 1] == b"0" else 10
    digits = "0123456789abcdefghijklmnopqrstuvwxyz"[:b]
    j = i
    val = 0
    while j < len(s) and chr(s[j]).lower() in digits:
        val = val * b + digits.index(chr(s[j]).lower())
        j += 1
    if j == i or j != len(s):
        return None
    if neg:
        val = -val
    if val > (1 << 63) - 1 or val < -(1 << 63):
        return None
    return val


def string_conditions(rng):
    out = []
    pool = [b"1234", b"-10", b"-010", b"0x1F", b"011", b"+7", b"", b"12a", b"zz", b"  42", b"9223372036854775807",
            b"9223372036854775808", b"-9223372036854775808", b"0", b"0x", b"1 ", b"7fffffff", b"Z", b"101", b"-0x10",
            b"08", b"0b1"]
    for _ in range(30):
        s = rng.choice(pool)
        if rng.random() < 0.5:
            v = strtoll(s, 0)
            e = "string.to_int(%s)" % qstr(s)
        else:
            base = rng.choice([0, 2, 8, 10, 16, 36, 1, 37, -1, 3])
            e = "string.to_int(%s, %d)" % (qstr(s), base)
            v = strtoll(s, base) if (base == 0 or 2 <= base <= 36) else None
        lit = "(-9223372036854775807 - 1)" if v == -(1 << 63) else ("" if v is None else "%d" % v)
        out.append(("to_int", "not defined " + e if v is None else "%s == %s" % (e, lit)))
    for _ in range(10):
        s = bytes(rng.choice([0, 65, 66, 255, 32, 0x5c, 0x22]) for _ in range(rng.randint(0, 9)))
        out.append(("length", "string.length(%s) == %d" % (qstr(s), len(s))))
    # string-argument forms of hash and math
    for _ in range(14):
        s = bytes(rng.choice([0, 65, 66, 255, 128, 200, 32, 97]) for _ in range(rng.randint(1, 12)))
        q = qstr(s)
        out.append(("md5-str", 'hash.md5(%s) == "%s"' % (q, hashlib.md5(s).hexdigest())))
        out.append(("sha1-str", 'hash.sha1(%s) == "%s"' % (q, hashlib.sha1(s).hexdigest())))
        out.append(("sha256-str", 'hash.sha256(%s) == "%s"' % (q, hashlib.sha256(s).hexdigest())))
        out.append(("crc32-str", "hash.crc32(%s) == %d" % (q, zlib.crc32(s) & 0xFFFFFFFF)))
        out.append(("checksum32-str", "hash.checksum32(%s) == %d" % (q, sum(s) & 0xFFFFFFFF)))
        out.append(("entropy-str", in_range("math.entropy(%s)" % q, entropy(s))))
        out.append(("mean-str", in_range("math.mean(%s)" % q, sum(s) / len(s))))
        mv = rng.choice([127.5, sum(s) / len(s)])
        out.append(("deviation-str", in_range("math.deviation(%s, %s)" % (q, ffmt(mv)), sum(abs(b - mv) for b in s) / len(s))))
        out.append(("serial_correlation-str", in_range("math.serial_correlation(%s)" % q, serial_correlation(s), 1e-5)))
    # integer helpers
    for _ in range(10):
        a, b = rng.choice([0, 1, 5, -1, 1 << 40]), rng.choice([0, 2, 7, -3])
        ua, ub = a & ((1 << 64) - 1), b & ((1 << 64) - 1)
        wrap = lambda v: v - (1 << 64) if v >> 63 else v
        out.append(("min", "math.min(%d, %d) == %d" % (a, b, wrap(min(ua, ub)))))
        out.append(("max", "math.max(%d, %d) == %d" % (a, b, wrap(max(ua, ub)))))
        out.append(("abs", "math.abs(%d) == %d" % (b, abs(b))))
        out.append(("to_string", 'math.to_string(%d) == "%d"' % (a, a)))
        out.append(("to_string16", 'math.to_string(%d, 16) == "%x"' % (b, b & ((1 << 64) - 1))))
        out.append(("to_string8", 'math.to_string(%d, 8) == "%o"' % (a, a & ((1 << 64) - 1))))
    out.append(("to_number", "math.to_number(filesize >= 0) == 1 and math.to_number(filesize < 0) == 0"))
    return out


def build_case(arg):
    seed, cid, mode = arg
    rng = random.Random(seed)
    if mode == "exh":
        n = rng.choice([0, 1, 2, 3, 5, 8, 12])
        buf = bytes(rng.choice([0, 1, 65, 66, 128, 200, 255, 97]) for _ in range(n))
        pairs = [(o, s) for o in range(-2, n + 3) for s in range(-2, n + 3)]
    else:
        n = rng.choice([100, 1000, 4096, 65536])
        buf = bytes(rng.randrange(256) if rng.random() < 0.7 else 65 for _ in range(n))
        pairs = []
        for _ in range(40):
            o = rng.choice([0, 1, n - 1, n, n + 1, rng.randrange(n), -1])
            s = rng.choice([0, 1, n, n - o if o < n else 5, n + 10, rng.randrange(n), -1, 6, 7])
            pairs.append((o, s))
    conds = []
    for o, s in pairs:
        for kind, c in hash_conditions(buf, o, s):
            conds.append((kind, c))
        if rng.random() < (0.25 if mode == "exh" else 1.0):
            conds += math_conditions(rng, buf, o, s)
    if mode == "exh":
        conds += string_conditions(rng)
    # repetitions: the same range again, through the same and through other algorithms, in random order
    reps = [rng.choice(conds) for _ in range(len(conds) // 4)]
    conds = conds + reps
    rng.shuffle(conds)
    src = ['import "hash"', 'import "math"', 'import "string"']
    for i, (kind, c) in enumerate(conds):
        src.append("rule c%d { condition: %s }" % (i, c))
    text = "\n".join(src) + "\n"
    lines = ["cnew 0", "cadd 0 - " + hx(text), "crules 0 0", "buf 0 " + hx(buf), "scan r0 mem 0 0 0 - - - 1 n"]
    if mode != "exh" or rng.random() < 0.3:
        # the same through a contiguous multi-block iterator (range walker crossing blocks)
        nb = rng.choice([2, 3, 5])
        if len(buf) >= nb:
            lines += ["snew 0 0", "scan s0 blocks 0 0 0 - @%d - 1000 n" % nb]
    return Case(cid, lines, dict(conds=conds, n=len(buf), buf=buf.hex()[:200], mode=mode))


def evaluate(chk, case, res, stats):
    m = case.meta
    wit_base = {"buffer_len": m["n"], "buffer_hex_prefix": m["buf"], "script": case.script() if len(case.script()) < 200000 else "(large)"}
    if res.status != "ok":
        if res.status.startswith("flaky") or res.status in ("missing", "harness"):
            chk.inconc("%s: %s" % (case.cid, res.status))
            return
        key = common.sanitizer_key(res.stderr) if res.status == "crash" else (
            common.leak_keys(res.stderr)[0] if res.status == "leak" else "hang")
        chk.violation("%s:%s" % (res.status, key), dict(wit_base, stderr=res.stderr[-3000:]))
        return
    cadd = res.ops("cadd")
    if cadd[0]["errors"] != 0:
        chk.violation("reference-rules-rejected", dict(wit_base, msgs=cadd[0]["msgs"][:3]))
        return
    for si, sc in enumerate(res.ops("scan")):
        if sc["rc"] != 0:
            chk.violation("scan-failed-rc%d" % sc["rc"], wit_base)
            continue
        verd = {mm[1]: mm[0] for mm in sc["msgs"] if mm[0] in (1, 2)}
        for i, (kind, c) in enumerate(m["conds"]):
            stats["conds"] += 1
            stats["kinds"][kind] = stats["kinds"].get(kind, 0) + 1
            if verd.get("default:c%d" % i) != 1:
                if si and (", 0)" in c) and kind.split("-")[0] in ("md5", "sha1", "sha256", "crc32", "checksum32"):
                    chk.violation("zero-length-range-at-block-boundary", dict(wit_base, condition_expected_true=c))
                    continue
                chk.violation("wrong-result:" + kind.split("-")[0], dict(
                    wit_base, condition_expected_true=c, through="multi-block iterator" if si else "single buffer",
                    position_in_rule_set=i))
                if len([v for v in chk.violations]) > 40:
                    return
            else:
                stats["nontrivial"].add(hashlib.sha256((c + m["buf"]).encode()).hexdigest())
    if len(stats["samples"]) < 5:
        stats["samples"].append({"buffer_len": m["n"], "conditions": [c for _k, c in m["conds"][:4]]})


def main(args):
    chk = common.Check(PID, args.tier, args.seed)
    exe = harness.get_exe("asan")
    nexh = int((80 if args.tier == "quick" else 1200) * args.scale) or 1
    nrnd = int((80 if args.tier == "quick" else 1600) * args.scale) or 1
    rng = chk.rng
    argsl = [(rng.getrandbits(64), "x%d" % i, "exh") for i in range(nexh)] + \
            [(rng.getrandbits(64), "r%d" % i, "rnd") for i in range(nrnd)]
    with multiprocessing.Pool(16) as pool:
        cases = pool.map(build_case, argsl, chunksize=2)
    results = harness.run_cases(exe, cases, "c14", cpu=600, batch=1)
    stats = dict(conds=0, nontrivial=set(), samples=[], kinds={})
    for c in cases:
        evaluate(chk, c, results[c.cid], stats)
    return chk.finish(
        evaluations=stats["conds"],
        distinct_nontrivial=len(stats["nontrivial"]),
        rule="conditions comparing a module result with an independently computed reference, all conditions of one buffer "
             "in ONE rule set in random order with 25% repetitions (digest cache): EXHAUSTIVE (offset, size) pairs in "
             "[-2, n+2]^2 for buffers of n<=12 bytes (contents incl. NUL and bytes >= 0x80) x md5/sha1/sha256/crc32/"
             "checksum32 (hashlib, zlib, byte sums; `not defined` expected when the offset lies outside the buffer or an "
             "argument is negative); math mean/entropy/deviation/count/percentage/mode/serial_correlation/monte_carlo_pi "
             "within a relative tolerance; random pairs on buffers up to 64 KiB, also through a contiguous multi-block "
             "iterator; string-argument forms with embedded NULs and high bytes; string.to_int/length against C strtoll "
             "semantics; math.min/max/abs/to_string/to_number. non-trivial = condition that held; distinct by "
             "sha256(condition, buffer)",
        samples=stats["samples"],
        extra={"rule_sets": len(cases), "conditions_per_kind": stats["kinds"]},
        assumptions=["empty clipped ranges for math statistics (0/0) and ties for math.mode are not judged",
                     "serial_correlation and monte_carlo_pi follow the `ent` algorithm the manual cites"],
        min_nontrivial=100)
