"""C08 - saved rules behave identically once loaded; the image depends only on rules and external values.
Oracle: differential (original vs loaded, before vs after save) + byte equality of images across
processes with different heap fill patterns, address-space layouts and arena capacities."""
import hashlib
import multiprocessing
import random

from vlib import common, harness, rulegen
from vlib.harness import Case, hx

PID = "C08"

EXTS = [("xi", "i"), ("xf", "f"), ("xb", "b"), ("xs", "s")]


def build_case(seed_cid):
    seed, cid = seed_cid
    rng = random.Random(seed)
    vocab = rulegen.make_vocab(rng)
    nss = ["default"] + ["ns%d" % i for i in range(rng.choice([0, 0, 1, 2]))]
    pool = {}
    mods = ("math", "hash", "pe", "elf", "time", "string") if rng.random() < 0.5 else ()
    for ns in nss:
        lst = []
        for k in range(rng.randint(1, 10)):
            lst.append(rulegen.gen_rule(rng, vocab, "r%d" % k, ns, [r.name for r in lst], ext_names=EXTS, modules=mods))
        pool[ns] = lst
    allrules = [r for ns in nss for r in pool[ns]]
    # a rule with a text-string set loop and a `matches` operand (both store pointers in the arena)
    extra = ('rule zz_loop { condition: for any s in ("ab", "needle", "%s") : (xs contains s) or xs matches /a[0-9]+b/i }\n'
             % rng.choice(["x", "zz", "hello"]))
    bufs = rulegen.gen_buffers(rng, allrules, n=3)
    lines = []
    for j, b in enumerate(bufs):
        lines.append("buf %d %s" % (j, hx(b)))
    lines.append("cnew 0")
    xs_val = rng.choice([b"ab", b"xa12b", b"", b"needle in haystack"])
    ext_vals = {"xi": rng.choice([0, 7, -3, 1 << 35]), "xf": rng.choice([0.0, 1.75, -2.5]), "xb": rng.randint(0, 1), "xs": xs_val}
    lines.append("cdef 0 i %s %d" % (hx("xi"), ext_vals["xi"]))
    lines.append("cdef 0 f %s %r" % (hx("xf"), ext_vals["xf"]))
    lines.append("cdef 0 b %s %d" % (hx("xb"), ext_vals["xb"]))
    lines.append("cdef 0 s %s %s" % (hx("xs"), hx(xs_val)))
    pieces = 0
    for ns in nss:
        imps = []
        for r in pool[ns]:
            for m in r.imports:
                if m not in imps:
                    imps.append(m)
        text = "".join('import "%s"\n' % m for m in imps) + "\n".join(r.text for r in pool[ns]) + "\n"
        if ns == "default":
            text += extra
        lines.append("cadd 0 %s %s" % (hx(ns) if ns != "default" else "-", hx(text)))
        pieces += 1
    lines.append("crules 0 0")
    redefine = rng.random() < 0.4
    if redefine:
        # (a string external redefined at rule-set level before saving is exercised by the separate
        #  'rdefstr' cases: it aborts the process, which would mask everything else in this case)
        lines.append("rdef 0 i %s %d" % (hx("xi"), rng.choice([1, 9, 100])))
        if rng.random() < 0.5:
            lines.append("rdef 0 f %s %r" % (hx("xf"), rng.choice([0.5, 9.25])))
        if rng.random() < 0.5:
            lines.append("rdef 0 b %s %d" % (hx("xb"), rng.randint(0, 1)))
    lines.append("rinfo 0 0")
    nb = len(bufs)
    for j in range(nb):
        lines.append("scan r0 mem %d 0 0 -" % j)
    c1 = rng.choice([0, 1, 3, 7, 64, 4096])
    lines.append("rsave 0 0 stream %d" % c1)
    lines.append("rsave 0 1 file 0")
    lines.append("rsave 0 2 stream %d" % rng.choice([0, 5, 1000]))
    for j in range(nb):
        lines.append("scan r0 mem %d 0 0 -" % j)
    c2 = rng.choice([0, 1, 2, 5, 13, 4096])
    lines.append("rload 0 1 stream %d" % c2)
    lines.append("rinfo 1 0")
    for j in range(nb):
        lines.append("scan r1 mem %d 0 0 -" % j)
    lines.append("rload 1 2 file 0")
    lines.append("rinfo 2 0")
    for j in range(nb):
        lines.append("scan r2 mem %d 0 0 -" % j)
    # save the loaded rules again: must give the same bytes
    lines.append("rsave 1 3 stream 0")
    # destroy the original first, then use the loaded ones again (no dangling references to the original)
    lines.append("rdestroy 0")
    lines.append("cdestroy 0")
    for j in range(nb):
        lines.append("scan r1 mem %d 0 0 -" % j)
    meta = dict(nb=nb, pieces=pieces, src="\n".join(r.text for r in allrules)[:6000] + "\n" + extra, redefine=redefine,
                kinds=sorted(set(s.kind for r in allrules for s in r.strings)), nrules=len(allrules) + 1,
                has_chain=any("[" in s.text and s.kind == "hex" for r in allrules for s in r.strings))
    return Case(cid, lines, meta)


def build_rdefstr_case(seed_cid):
    seed, cid = seed_cid
    rng = random.Random(seed)
    v1 = rng.choice([b"ab", b"", b"needle"])
    v2 = rng.choice([b"zz", b"needle", b"a much longer value than before"])
    text = 'rule a { condition: xs == %s }\nrule b { condition: xs contains "needle" }\n' % ('"' + v2.decode() + '"')
    lines = ["cnew 0", "cdef 0 s %s %s" % (hx("xs"), hx(v1)), "cadd 0 - " + hx(text), "crules 0 0",
             "rdef 0 s %s %s" % (hx("xs"), hx(v2)), "buf 0 " + hx(b"data"), "scan r0 mem 0 0 0 -",
             "rsave 0 0 stream %d" % rng.choice([0, 3]), "scan r0 mem 0 0 0 -", "rload 0 1 stream 0", "scan r1 mem 0 0 0 -"]
    return Case(cid, lines, dict(src=text, kind="rdefstr", v2=v2.decode()))


def evaluate_rdefstr(chk, case, res, stats):
    m = case.meta
    w = {"rule_source": m["src"], "script": case.script(), "history": "compile with xs, yr_rules_define_string_variable(xs), save"}
    stats["rdefstr"] += 1
    if res.status == "crash" and "yr_arena_save_stream" in res.stderr and "Assertion" in res.stderr:
        chk.violation("save-after-rules-level-string-define", dict(w, stderr=res.stderr[:600]))
        return
    if res.status != "ok":
        chk.violation("rdefstr:%s" % res.status, dict(w, stderr=res.stderr[-2000:]))
        return
    scans = res.ops("scan")
    sigs = [rulegen.scan_signature(s) for s in scans]
    if len(sigs) == 3 and not (sigs[0] == sigs[1] == sigs[2]):
        chk.violation("rdefstr-results-differ", dict(w, results=sigs))


def evaluate(chk, case, res, res2, stats):
    m = case.meta
    wit_base = {"rule_source": m["src"], "script": case.script()}
    for r in (res, res2):
        if r.status != "ok":
            if r.status.startswith("flaky") or r.status in ("missing", "harness"):
                chk.inconc("%s: %s" % (case.cid, r.status))
                return
            key = common.sanitizer_key(r.stderr) if r.status == "crash" else (
                common.leak_keys(r.stderr)[0] if r.status == "leak" else "hang")
            chk.violation("%s:%s" % (r.status, key), dict(wit_base, stderr=r.stderr[-3000:]))
            return
    cadd = res.ops("cadd")
    if any(c["errors"] != 0 for c in cadd) or res.ops("crules")[0]["rc"] != 0:
        stats["rejected"] += 1
        stats["reject_msgs"].add(([mm[3] for c in cadd for mm in c["msgs"] if mm[0] == 0] or ["?"])[0][:60])
        return
    stats["cases"] += 1
    nb = m["nb"]
    scans = res.ops("scan")
    saves = res.ops("rsave")
    loads = res.ops("rload")
    infos = res.ops("rinfo")
    sig = lambda lst: [(s["rc"], rulegen.scan_signature(s), s["msgs"]) for s in lst]
    before = sig(scans[0:nb])
    after_save = sig(scans[nb:2 * nb])
    loaded_stream = sig(scans[2 * nb:3 * nb])
    loaded_file = sig(scans[3 * nb:4 * nb])
    after_destroy = sig(scans[4 * nb:5 * nb])
    stats["comparisons"] += 4 * nb
    if any(s["rc"] != 0 for s in saves):
        chk.violation("save-failed", dict(wit_base, saves=saves))
        return
    if any(l["rc"] != 0 for l in loads):
        chk.violation("load-of-own-image-failed", dict(wit_base, loads=loads))
        return
    if len({s["sha"] for s in saves[:3]}) != 1:
        chk.violation("two-saves-differ-in-process", dict(wit_base, saves=saves))
    if saves[3]["sha"] != saves[0]["sha"]:
        chk.violation("resave-of-loaded-rules-differs", dict(wit_base, saves=saves))
    if before != after_save:
        chk.violation("original-changed-by-save", dict(wit_base, before=before[0][1], after=after_save[0][1]))
    for name, got in (("stream", loaded_stream), ("file", loaded_file), ("after-original-destroyed", after_destroy)):
        if got != before:
            for j in range(nb):
                if got[j] != before[j]:
                    chk.violation("loaded-rules-behave-differently:" + name,
                                  dict(wit_base, buffer=j, original=before[j][:2], loaded=got[j][:2]))
                    break
    strip = lambda i: {k: v for k, v in i.items() if k in ("rules", "nstrings", "nrules", "externals")}
    if strip(infos[1]) != strip(infos[0]) or strip(infos[2]) != strip(infos[0]):
        chk.violation("loaded-metadata-differs", dict(wit_base, original=strip(infos[0]), loaded=strip(infos[1])))
    # cross-process determinism
    saves2 = res2.ops("rsave")
    stats["images"] += 1
    stats["image_bytes"] += saves[0]["len"]
    if saves2 and saves2[0]["rc"] == 0 and saves2[0]["sha"] != saves[0]["sha"]:
        chk.violation("image-differs-across-processes", dict(wit_base, process_a=saves[0], process_b=saves2[0]))
    if any(v[0] == 1 for s in before for v in s[1].values()):
        stats["nontrivial"].add(hashlib.sha256(m["src"].encode()).hexdigest())
    for k in m["kinds"]:
        stats["kinds"][k] = stats["kinds"].get(k, 0) + 1
    if m["has_chain"]:
        stats["kinds"]["hex-with-jump"] = stats["kinds"].get("hex-with-jump", 0) + 1
    if len(stats["samples"]) < 4:
        stats["samples"].append({"rules": m["nrules"], "image_len": saves[0]["len"], "sha": saves[0]["sha"][:16],
                                 "redefined_before_save": m["redefine"], "first_rule": m["src"][:200]})


def main(args):
    chk = common.Check(PID, args.tier, args.seed)
    exe = harness.get_exe("asan")
    ncases = int((500 if args.tier == "quick" else 7000) * args.scale)
    rng = chk.rng
    seeds = [(rng.getrandbits(64), "c%d" % i) for i in range(ncases)]
    with multiprocessing.Pool(16) as pool:
        cases = pool.map(build_case, seeds, chunksize=8)
    envA = {"ASAN_OPTIONS": harness.ASAN_OPTS + ":malloc_fill_byte=17:max_malloc_fill_size=268435456"}
    envB = {"ASAN_OPTIONS": harness.ASAN_OPTS + ":malloc_fill_byte=238:max_malloc_fill_size=268435456",
            "YRH_PAD_ENV": "x" * 3000}
    resA = harness.run_cases(exe, cases, "c08a", cpu=300, env_extra=envA)
    # second process family: other heap fill byte, other environment size, tiny arena with exact growth
    casesB = [Case(c.cid, ["arena %d %d" % (random.Random(c.cid).choice([1, 7, 64, 4096, 65536]),
                                            1 if random.Random(c.cid + "x").random() < 0.3 else 0)]
                   + c.lines, c.meta) for c in cases]
    rcases = [build_rdefstr_case((rng.getrandbits(64), "rd%d" % i)) for i in range(6)]
    resR = harness.run_cases(exe, rcases, "c08r", cpu=60, batch=1)
    resB = harness.run_cases(exe, casesB, "c08b", cpu=300, env_extra=envB, batch=3)
    stats = dict(cases=0, comparisons=0, nontrivial=set(), samples=[], rejected=0, reject_msgs=set(), images=0,
                 image_bytes=0, kinds={})
    stats["rdefstr"] = 0
    for c in cases:
        evaluate(chk, c, resA[c.cid], resB[c.cid], stats)
    for c in rcases:
        evaluate_rdefstr(chk, c, resR[c.cid], stats)
    if stats["rejected"] > 0.2 * len(cases):
        print("HARNESS: too many rule sets rejected: %s" % sorted(stats["reject_msgs"])[:5])
        return common.EXIT_HARNESS
    return chk.finish(
        evaluations=stats["comparisons"],
        distinct_nontrivial=len(stats["nontrivial"]),
        rule="per generated rule set (text/hex/regex strings incl. chained ones, `matches` operand, text-string set "
             "loop, imports, 4 external types, several namespaces, tags, metas, private/global): scans before save, "
             "after save, with rules loaded through a chunked stream, through a file, and after the original was "
             "destroyed must agree (verdicts, match lists, callback trace); tags/metas/externals/string tables must be "
             "equal; three saves in one process, a re-save of the loaded rules, and a save in a second process with a "
             "different heap fill byte / environment / arena capacity must be byte-identical. evaluations = scan "
             "comparisons; non-trivial = rule set with at least one matching rule; distinct by sha256(rule text)",
        samples=stats["samples"],
        extra={"rule_sets": stats["cases"], "images_compared_across_processes": stats["images"],
               "image_bytes_total": stats["image_bytes"], "string_kinds": stats["kinds"], "save_after_rules_level_string_define_cases": stats["rdefstr"],
               "rule_sets_rejected": stats["rejected"], "reject_messages": sorted(stats["reject_msgs"])[:5]},
        assumptions=["uninitialised bytes are detected through differing ASan malloc fill bytes (0x11 vs 0xEE) in the two "
                     "process families; memcheck definedness is not used in the quick tier"],
        min_nontrivial=10)
