"""C15 - exceeding engine limits yields the documented error, not a crash or hang.
Oracle: a table of limits (limits.h / error.h / manual) with the expected outcome on each side of every
limit; timeliness of timeouts is decided on logical work units under a virtual clock (hooks H2/H3)."""
import hashlib
import resource
import time

from vlib import common, harness
from vlib.harness import Case, hx

PID = "C15"
E_SYNTAX, E_NEST, E_INCLUDE, E_STACK, E_TIMEOUT, E_TMM, E_TOO_LARGE, E_FIBERS, E_COMPLEX, E_STRINGS = 11, 12, 23, 25, 26, 30, 45, 46, 49, 51
WITNESS = 'rule witness { strings: $w = "witness123" condition: $w }\n'
WBUF = b" witness123 "


def compile_case(cid, text, pre=(), expect_ok=True, code=None, what="", scan_buf=WBUF, scan_expect=None, post=()):
    lines = list(pre) + ["cnew 0", "cadd 0 - " + hx(WITNESS + text), "crules 0 0", "buf 0 " + hx(scan_buf), "scan r0 mem 0 0 0 -"]
    lines += list(post)
    # sentinel: the library must remain usable
    lines += ["cfg stack 16384", "cfg maxstrings 10000", "cnew 1", "cadd 1 - " + hx(WITNESS), "crules 1 1", "scan r1 mem 0 0 0 -"]
    return Case(cid, lines, dict(kind="compile", ok=expect_ok, code=code, what=what, scan_expect=scan_expect))


def gen_cases(tier):
    cases = []
    # identifier length 128
    for n, ok in ((1, True), (127, True), (128, True), (129, False), (130, False), (5000, False)):
        cases.append(compile_case("ident%d" % n, "rule %s { condition: true }" % ("a" * n), expect_ok=ok, code=E_SYNTAX,
                                  what="identifier of %d characters (limit 128)" % n))
    # loop nesting 4
    for n, ok in ((1, True), (3, True), (4, True), (5, False), (6, False), (40, False)):
        body = "".join("for any v%d in (1..2) : (" % i for i in range(n)) + "true" + ")" * n
        cases.append(compile_case("nest%d" % n, "rule r { condition: %s }" % body, expect_ok=ok, code=E_NEST,
                                  what="%d nested loops (limit 4)" % n))
    # strings per rule (configurable)
    for m in (1, 5, 64):
        for n in (m - 1, m, m + 1, m + 50):
            if n < 1:
                continue
            text = "rule r { strings: " + " ".join('$s%d = "abc%d"' % (i, i) for i in range(n)) + " condition: any of them }"
            cases.append(compile_case("maxstr%d_%d" % (m, n), text, pre=["cfg maxstrings %d" % m], expect_ok=(n <= m),
                                      code=E_STRINGS, what="%d strings with max_strings_per_rule=%d" % (n, m)))
    # lexer buffer (YR_LEX_BUF_SIZE 8192): 8190 fits, 8192 and more do not
    for n, ok in ((100, True), (8190, True), (8192, False), (8193, False), (100000, False)):
        cases.append(compile_case("strlen%d" % n, 'rule r { strings: $a = "%s" condition: $a }' % ("a" * n), expect_ok=ok,
                                  code=E_SYNTAX, what="text string of %d bytes (lexer buffer 8192)" % n))
        cases.append(compile_case("relen%d" % n, 'rule r { strings: $a = /%s/ condition: $a }' % ("a" * n), expect_ok=ok if n < 8000 else None,
                                  code=None, what="regexp of %d bytes" % n))
        cases.append(compile_case("hexlen%d" % n, 'rule r { strings: $a = { %s } condition: $a }' % ("41 " * (n // 3)), expect_ok=None,
                                  code=None, what="hex string of %d bytes of text" % n))
    # integer literals around 2^63
    lits = [("9223372036854775807", True), ("9223372036854775806", True), ("9223372036854775808", False), ("0x7FFFFFFFFFFFFFFF", True),
            ("0x8000000000000000", False), ("0xFFFFFFFFFFFFFFFF", False), ("9007199254740991KB", True), ("9007199254740992KB", False),
            ("8796093022207MB", True), ("8796093022208MB", False), ("0o777777777777777777777", True),
            ("0o1000000000000000000000", False), ("99999999999999999999999999", False), ("1KB", True), ("1MB", True)]
    for lit, ok in lits:
        cases.append(compile_case("lit_" + lit, "rule r { condition: %s != 1 }" % lit, expect_ok=ok, code=E_SYNTAX,
                                  what="integer literal " + lit))
    # regexp complexity (128 split ids): 129 alternatives = 128 splits fit, more do not
    for n, ok in ((2, True), (100, True), (129, True), (130, False), (131, False), (400, False)):
        cases.append(compile_case("alt%d" % n, "rule r { strings: $a = /x(%s)y/ condition: $a }" % "|".join("a%d" % i for i in range(n)),
                                  expect_ok=ok, code=E_COMPLEX, what="regexp with %d alternatives (128 split ids)" % n))
    cases.append(compile_case("hexalt200", "rule r { strings: $a = { 01 (%s) 02 } condition: $a }" % " | ".join("%02X 03" % i for i in range(200)),
                              expect_ok=False, code=E_COMPLEX, what="hex string with 200 alternatives"))
    # include depth 16
    for d, ok in ((1, True), (15, True), (16, True), (17, False), (18, False), (40, False)):
        pre = []
        for i in range(d):
            pre.append("incl %s %s" % (hx("i%d" % i), hx(('include "i%d"\n' % (i + 1)) if i < d - 1 else 'rule leaf { condition: true }\n')))
        cases.append(compile_case("incl%d" % d, 'include "i0"\n', pre=pre, expect_ok=ok, code=None,
                                  what="%d nested includes (limit 16)" % d))
    # evaluation stack depth (configurable)
    for S in (1, 2, 4, 16, 64, 1000):
        for n in (S - 1, S, S + 1, S + 2, 4 * S + 7):
            if n < 1:
                continue
            expr = "1"
            for _ in range(n - 1):
                expr = "1 + (%s)" % expr
            need = max(n, 2)     # n operands of the nested sum, or the sum and the 0 it is compared with
            c = compile_case("stack%d_%d" % (S, n), "rule r { condition: %s > 0 }" % expr, pre=["cfg stack %d" % S],
                             expect_ok=True if n < 2000 else None,
                             what="expression needing %d stack slots with stack_size=%d" % (need, S),
                             scan_expect=(0 if need <= S else E_STACK))
            cases.append(c)
    # regexp fibers (1024) at scan time
    cases.append(compile_case("fibers", "rule r { strings: $a = /x((a{1,40}){1,40}){1,40}y/ condition: $a }", expect_ok=True,
                              scan_buf=b"x" + b"a" * 3000 + WBUF, scan_expect=E_FIBERS, what="regexp needing more than 1024 fibers"))
    cases.append(compile_case("fibers_ok", "rule r { strings: $a = /x((a{1,40}){1,40}){1,40}y/ condition: $a }", expect_ok=True,
                              scan_buf=b"xaay" + WBUF, scan_expect=0, what="same regexp on benign data"))
    return cases


def match_limit_cases():
    """matches per string: 1,000,000"""
    L = 1000000
    out = []
    pad = "rule pad { strings: " + " ".join('$p%d = "pad%02dq"' % (i, i) for i in range(70)) + " condition: any of them }\n"
    for n in (L - 1, L, L + 1, L + 5000):
        for answer, tag in (("-", "continue"), ("t6:e", "refuse")):
            lines = ["cnew 0", "cadd 0 - " + hx(WITNESS + pad + 'rule many { strings: $a = "X" condition: #a >= %d }\n'
                                               'rule other { strings: $b = "Y" condition: #b == 3 }\n'
                                               'rule some { strings: $c = "X" condition: $c }\n' % min(n, L)),
                     "crules 0 0", "maxrec 3", "bufrep 0 %s %d %s" % (hx(b"X"), n, hx(b"YYY" + WBUF)),
                     "snew 0 0", "scan s0 mem 0 - - %s" % answer, "buf 1 " + hx(WBUF + b"XX"), "scan s0 mem 1 - - -"]
            out.append(Case("tmm%d_%s" % (n, tag), lines, dict(kind="tmm", n=n, L=L, refuse=(tag == "refuse"))))
    return out


def timeout_cases(tier):
    out = []
    loops = ("for all i in (1..1000) : (for all j in (1..1000) : (for all k in (1..1000) : (for all l in (1..1000) : "
             "(i + j + k + l > 0))))")
    mods = 'import "hash"\nrule slowm { condition: for all i in (1..1000000) : (hash.checksum32(0, filesize) >= 0 and i > 0) }\n'
    shapes = [("loops4", "rule slow { condition: %s }\n" % loops, b"abc" + WBUF, "vm"),
              ("modloop", mods, b"abc" * 50 + WBUF, "vm"),
              ("bigdata", 'rule big { strings: $a = "zq" condition: $a }\n', None, "bytes"),
              ("strloop", 'rule sl { strings: $a = "ab" condition: for all i in (1..#a) : (for all j in (1..#a) : (@a[i] + @a[j] >= 0)) }\n',
               b"ab" * 3000 + WBUF, "vm")]
    for name, rule, buf, kind in shapes:
        for D in (1, 3, 10, 50):
            lines = ["cnew 0", "cadd 0 - " + hx(WITNESS + rule), "crules 0 0", "vclockscale 1000000"]
            if buf is None:
                lines.append("bufrep 0 %s %d %s" % (hx(b"abcdefgh"), 500000, hx(WBUF)))
            else:
                lines.append("buf 0 " + hx(buf))
            lines += ["snew 0 0", "scan s0 mem 0 0 %d - - - 1 v" % D, "buf 2 " + hx(WBUF),
                      "cnew 1", "cadd 1 - " + hx(WITNESS), "crules 1 1", "scan r1 mem 2 0 0 -"]
            out.append(Case("to_%s_%d" % (name, D), lines, dict(kind="timeout", D=D * 1000, shape=name, counted=kind)))
    return out

SWEEP_RULES = [
    ("dict", 'for any k, v in pe.version_info : (k == "zz")'),
    ("dict-hit", 'for any k, v in pe.version_info : (v contains "v")'),
    ("array", 'for any s in pe.sections : (s.name == "zz")'),
    ("range", "for any i in (1..3) : (i == 7)"),
    ("enum", "for any i in (1, 2, 3) : (i == 7)"),
    ("strset", "for any of them : (@ > 100000)"),
    ("textset", 'for any s in ("a", "b") : (s == "c")'),
    ("of", "2 of them in (0..1000)"),
    ("nested", "for any i in (1..2) : (for any s in pe.sections : (for any k, v in pe.version_info : (i == 9)))"),
    ("call", 'pe.imphash() == "x" or pe.section_index(".rdata") == 99 or pe.exports("nope")'),
]


def stack_sweep_cases(tier):
    """every evaluation-stack size S from 1 to a little beyond what each iterator-based condition needs (the condition is
    wrapped in d 'true and (...)' levels that keep d values on the stack): the scan returns ERROR_EXEC_STACK_OVERFLOW up
    to some S0 and the reference verdict from S0 on; no size may crash (the iterators push 1-3 values after checking
    for room)"""
    from vlib import m_synth
    pe = m_synth.pe(nversion=5, nsections=3, imports=(2, 3), nexports=4)
    out = []
    depths = (0, 7, 24) if tier == "quick" else (0, 1, 2, 3, 7, 15, 24, 40)
    for name, cond in SWEEP_RULES:
        for d in depths:
            expr = cond
            for _ in range(d):
                expr = "true and (%s)" % expr
            text = 'import "pe"\nrule sweep { strings: $_a = "MZ" $_b = "synth" $_c = "zqzq" condition: %s }\n' % expr
            for S in list(range(1, d + 26)) + [d + 40, 16384]:
                lines = ["cfg stack %d" % S, "cnew 0", "cadd 0 - " + hx(WITNESS + text), "crules 0 0", "buf 0 " + hx(pe + WBUF),
                         "scan r0 mem 0 0 0 -", "cfg stack 16384", "cnew 1", "cadd 1 - " + hx(WITNESS), "crules 1 1",
                         "buf 1 " + hx(WBUF), "scan r1 mem 1 0 0 -"]
                out.append(Case("sw_%s_%d_%d" % (name, d, S), lines, dict(kind="sweep", rule=name, depth=d, S=S, what="stack %d, %s at depth %d" % (S, name, d))))
    return out


def evaluate_sweep(chk, cases, results, stats):
    groups = {}
    for c in cases:
        r = results[c.cid]
        if r.status != "ok" or len(r.ops("scan")) < 2:
            continue
        sc = r.ops("scan")[0]
        verd = {mm[1]: mm[0] for mm in sc["msgs"] if mm[0] in (1, 2)}
        groups.setdefault((c.meta["rule"], c.meta["depth"]), []).append((c.meta["S"], sc["rc"], verd, c))
    for (rule, depth), lst in groups.items():
        lst.sort(key=lambda t: t[0])
        ref = lst[-1]
        if ref[1] != 0:
            chk.violation("stack-sweep:largest-stack-fails", dict(rule=rule, depth=depth, rc=ref[1], script=ref[3].script()[-2000:]))
            continue
        seen_ok = False
        for S, rc, verd, c in lst:
            w = dict(rule=rule, depth=depth, stack_size=S, rc=rc, script=c.script()[-2000:])
            if rc == 0:
                seen_ok = True
                if verd != ref[2]:
                    chk.violation("stack-sweep:verdict-depends-on-stack-size", dict(w, verdicts=verd, reference=ref[2]))
            elif rc == E_STACK:
                if seen_ok:
                    chk.violation("stack-sweep:overflow-above-a-sufficient-size", w)
            else:
                chk.violation("stack-sweep:unexpected-rc%d" % rc, w)
        stats["limits"].add("evaluation stack x iterators")
        stats["sweep_groups"] = stats.get("sweep_groups", 0) + 1


def evaluate(chk, case, res, stats):
    m = case.meta
    w = {"case": case.cid, "what": m.get("what", m.get("shape", "")), "script": case.script() if len(case.script()) < 60000 else case.script()[:3000] + "...(large)"}
    if res.status != "ok":
        if res.status.startswith("flaky") or res.status in ("missing", "harness"):
            chk.inconc("%s: %s" % (case.cid, res.status))
            return
        if res.status == "leak":
            for k in common.leak_keys(res.stderr):
                chk.violation("leak-at-limit:" + k.replace("leak@", ""), dict(w, stderr=res.stderr[-2500:]))
            return
        key = common.sanitizer_key(res.stderr) if res.status == "crash" else "hang"
        chk.violation("%s-at-limit:%s" % (res.status, key), dict(w, stderr=res.stderr[-3000:]))
        return
    scans = res.ops("scan")
    cadds = res.ops("cadd")
    stats["cases"] += 1
    if m["kind"] == "sweep":
        last = scans[-1]
        verd = {mm[1]: mm[0] for mm in last["msgs"] if mm[0] in (1, 2)}
        if last["rc"] != 0 or verd.get("default:witness") != 1:
            chk.violation("library-unusable-after-limit", dict(w, rc=last["rc"], verdicts=verd))
        else:
            stats["nontrivial"].add(case.cid)
        return
    if m["kind"] == "compile":
        ca = cadds[0]
        ok = ca["errors"] == 0 and res.ops("crules")[0]["rc"] == 0
        stats["limits"].add(case.cid.rstrip("0123456789_"))
        if m["ok"] is True and not ok:
            chk.violation("rejected-below-limit:" + case.cid.rstrip("0123456789_"), dict(w, compile=ca))
        elif m["ok"] is False and ok:
            chk.violation("accepted-beyond-limit:" + case.cid.rstrip("0123456789_"), dict(w, compile=ca))
        elif not ok:
            errs = [mm for mm in ca["msgs"] if mm[0] == 0]
            if not errs or not errs[0][3] or errs[0][1] <= 0:
                chk.violation("limit-error-without-diagnosis", dict(w, compile=ca))
            if m["code"] is not None and ca.get("code") != m["code"]:
                chk.violation("wrong-error-code-at-limit:" + case.cid.rstrip("0123456789_"), dict(w, expected=m["code"], got=ca.get("code")))
        if ok:
            sc = scans[0]
            verd = {mm[1]: mm[0] for mm in sc["msgs"] if mm[0] in (1, 2)}
            if m["scan_expect"] is not None and sc["rc"] != m["scan_expect"]:
                chk.violation("wrong-scan-result-at-limit:" + case.cid.rstrip("0123456789_"), dict(w, expected_rc=m["scan_expect"], rc=sc["rc"]))
            elif sc["rc"] == 0 and verd.get("default:witness") != 1:
                chk.violation("unrelated-rule-affected", dict(w, verdicts=verd))
        # library still usable
        last = scans[-1]
        verd = {mm[1]: mm[0] for mm in last["msgs"] if mm[0] in (1, 2)}
        if last["rc"] != 0 or verd.get("default:witness") != 1:
            chk.violation("library-unusable-after-limit", dict(w, rc=last["rc"], verdicts=verd))
        else:
            stats["nontrivial"].add(case.cid)
    elif m["kind"] == "tmm":
        sc, after = scans[0], scans[1]
        n, L = m["n"], m["L"]
        msgs6 = [mm for mm in sc["msgs"] if mm[0] == 6]
        verd = {mm[1]: mm[0] for mm in sc["msgs"] if mm[0] in (1, 2)}
        stats["limits"].add("matches-per-string")
        if n <= L:
            if msgs6 or sc["rc"] != 0:
                chk.violation("too-many-matches-below-limit", dict(w, n=n, rc=sc["rc"], messages=msgs6))
            elif verd.get("default:many") != 1 or verd.get("default:other") != 1 or verd.get("default:witness") != 1:
                chk.violation("wrong-verdicts-at-match-limit", dict(w, n=n, verdicts=verd))
        else:
            names = sorted(mm[1] for mm in msgs6)
            if (m["refuse"] and (len(names) != 1 or names[0] not in ("$a", "$c"))) or (not m["refuse"] and names != ["$a", "$c"]):
                chk.violation("too-many-matches-message-missing-or-repeated", dict(w, n=n, messages=msgs6, rc=sc["rc"]))
            elif m["refuse"]:
                if sc["rc"] != E_TMM:
                    chk.violation("refused-too-many-matches-wrong-rc", dict(w, rc=sc["rc"]))
            else:
                if sc["rc"] != 0:
                    chk.violation("accepted-too-many-matches-wrong-rc", dict(w, rc=sc["rc"]))
                elif verd.get("default:other") != 1 or verd.get("default:witness") != 1 or verd.get("default:many") != 1:
                    chk.violation("limit-hit-changed-other-results", dict(w, verdicts=verd))
        va = {mm[1]: mm[0] for mm in after["msgs"] if mm[0] in (1, 2)}
        if after["rc"] != 0 or va.get("default:witness") != 1 or va.get("default:many") != 2 or va.get("default:some") != 1:
            chk.violation("library-unusable-after-limit", dict(w, rc=after["rc"], verdicts=va))
        else:
            stats["nontrivial"].add(case.cid)
    else:
        sc = scans[0]
        D = m["D"]
        work = sc["work"][0] + sc["work"][1]
        stats["limits"].add("timeout")
        stats["timeout_scans"] += 1
        slack = 4096 + 100 + 64
        if sc["rc"] not in (0, E_TIMEOUT):
            chk.violation("timeout-case-unexpected-rc%d" % sc["rc"], dict(w, work=sc["work"]))
        elif work > D + slack:
            chk.violation("work-continued-after-deadline", dict(w, deadline_units=D, work_units=work, rc=sc["rc"], breakdown=sc["work"]))
        elif sc["rc"] == 0 and m["shape"] in ("loops4", "modloop", "bigdata") and D < 100000:
            chk.violation("long-running-scan-finished-without-timeout?", dict(w, deadline_units=D, work_units=work))
        last = scans[-1]
        verd = {mm[1]: mm[0] for mm in last["msgs"] if mm[0] in (1, 2)}
        if last["rc"] != 0 or verd.get("default:witness") != 1:
            chk.violation("library-unusable-after-timeout", dict(w, rc=last["rc"], verdicts=verd))
        else:
            stats["nontrivial"].add(case.cid)
        if sc["work"][2] > 0:
            stats["clock_queries"] += sc["work"][2]
    if len(stats["samples"]) < 6 and m["kind"] != "compile":
        stats["samples"].append({"case": case.cid, "rc": scans[0]["rc"], "work[bytes,vm,clock queries]": scans[0].get("work")})


def real_clock_smoke(chk, exe, stats, n):
    """1 s and 2 s real timeouts: CPU time of the scanning process (start-up and compilation included) must stay
    below timeout + 2 s; CPU time can only be smaller than the monotonic time the deadline is measured on"""
    loops = ("for all i in (1..100000) : (for all j in (1..100000) : (for all k in (1..100000) : (for all l in (1..100000) : "
             "(i + j + k + l > 0))))")
    shapes = [("rule slow { condition: %s }\n" % loops, "buf 0 " + hx(b"abc")),
              ('import "hash"\nrule slowm { condition: for all i in (1..100000000) : (hash.md5(0, filesize) != "x" and i > 0) }\n', "buf 0 " + hx(b"abc" * 100)),
              ('rule big { strings: $a = /a+b/ condition: $a }\n', "bufrep 0 %s 4000000 %s" % (hx(b"ac"), hx(b"ab")))][:n]
    # (shape, timeout in seconds): the first shape also with 2 s, so that a clock that runs at the wrong rate shows
    runs = [(i, sh, 1) for i, sh in enumerate(shapes)] + [(0, shapes[0], 2)]
    for i, (rule, bufline), T in runs:
        script = "case smoke%d\ncnew 0\ncadd 0 - %s\ncrules 0 0\n%s\nscan r0 mem 0 0 %d - - - 1 n\n" % (i, hx(rule), bufline, T)
        r0 = resource.getrusage(resource.RUSAGE_CHILDREN)
        t0 = time.time()
        out, err, status = harness.run_script(exe, script, harness.workdir("c15smoke"), cpu=60)
        r1 = resource.getrusage(resource.RUSAGE_CHILDREN)
        cpu = (r1.ru_utime + r1.ru_stime) - (r0.ru_utime + r0.ru_stime)
        wall = time.time() - t0
        stats["smoke"].append({"shape": i, "timeout_s": T, "cpu_s": round(cpu, 2), "wall_s": round(wall, 2)})
        rc = None
        for line in out.split("\n"):
            if line.startswith('{"op":"scan"'):
                import json
                rc = json.loads(line)["rc"]
        if status != 0 and status != 77:
            chk.violation("real-timeout-crash-or-hang", dict(script=script[:400], status=str(status), stderr=err[-1500:]))
        elif cpu > T + 2.0:
            chk.violation("real-timeout-overrun", dict(script=script[:400], cpu_seconds=cpu, rc=rc))
        elif rc not in (0, E_TIMEOUT):
            chk.violation("real-timeout-unexpected-rc", dict(script=script[:400], rc=rc))


def main(args):
    chk = common.Check(PID, args.tier, args.seed)
    exe = harness.get_exe("asan")
    cases = gen_cases(args.tier) + timeout_cases(args.tier)
    tmm = match_limit_cases()
    if args.tier == "quick":
        tmm = [c for c in tmm if c.cid in ("tmm1000000_continue", "tmm1000001_continue", "tmm1000001_refuse", "tmm999999_continue")]
    sweep = stack_sweep_cases(args.tier)
    cases += sweep
    results = harness.run_cases(exe, cases, "c15", cpu=90, batch=6)
    results.update(harness.run_cases(exe, tmm, "c15t", cpu=180, batch=1))
    stats = dict(cases=0, nontrivial=set(), samples=[], limits=set(), timeout_scans=0, clock_queries=0, smoke=[])
    for c in cases + tmm:
        evaluate(chk, c, results[c.cid], stats)
    evaluate_sweep(chk, sweep, results, stats)
    real_clock_smoke(chk, exe, stats, 2 if args.tier == "quick" else 3)
    return chk.finish(
        evaluations=len(cases) + len(tmm) + len(stats["smoke"]),
        distinct_nontrivial=len(stats["nontrivial"]),
        rule="for every limit L (identifier length 128, loop nesting 4, strings per rule [3 settings], lexer buffer 8192, "
             "integer literals around 2^63 incl. KB/MB/hex/octal, regexp split ids 128, include depth 16, evaluation "
             "stack [6 settings; plus every size 1..d+25 for ten iterator/loop/call conditions nested d deep: overflow error up "
             "to some size, the reference verdict from there on, never a crash], regexp fibers 1024, matches per string 1,000,000): inputs at L-1, L, L+1 and far "
             "beyond, expected accept/reject/error code/warning message from the table; every case carries an "
             "unrelated witness rule and ends with a sentinel compile+scan. Timeouts: 4 long-running rule shapes "
             "(4 nested loops over 10^12 iterations, module calls in a 10^6 loop, 4 MB of data, quadratic loop over "
             "match offsets) x 4 deadlines under a virtual clock that advances 1 unit per scanned byte / VM "
             "instruction: the scan must stop having done at most deadline+4096+100+64 units of counted work; plus "
             "real-clock smoke runs (1 s and 2 s timeouts, CPU time < timeout + 2 s). non-trivial = case whose outcome matched the "
             "table and after which the library was still usable",
        samples=stats["samples"],
        extra={"limits_exercised": sorted(stats["limits"]), "virtual_time_scans": stats["timeout_scans"],
               "virtual_clock_queries_observed": stats["clock_queries"], "real_clock_smoke": stats["smoke"]},
        assumptions=["work inside module functions and inside string verification is not counted by the virtual clock",
                     "the lexer-buffer boundary itself (8191 bytes) and hex/regexp strings of that size are not judged"],
        min_nontrivial=40)
