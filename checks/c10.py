"""C10 - a scanner's results do not depend on its scan history.
Oracle: each scan of a history on a reused scanner vs the same scan on a freshly created scanner
with the same settings (same process); LSan at the end of every history."""
import hashlib
import multiprocessing
import random

from vlib import common, harness, rulegen
from vlib.harness import Case, hx

PID = "C10"
DATA = "/repo/tests/data/"
FILES = {"pe": "tiny", "pe64": "mtxex.dll", "dotnet": "0ca09bde7602769120fadc4f7a4147347a7a97271370583586c9e587fd396171",
         "elf": "elf_with_imports", "elf32": "079a472d22290a94ebb212aa8015cdc8dd28a968c6b4d3b88acdd58ce2d3b885.upx"}

PROBE = r'''
import "pe"
import "elf"
import "hash"
import "math"
import "dotnet"
rule ep_def { condition: defined entrypoint }
rule ep_small { condition: entrypoint < 0x300 }
rule ep_mid { condition: entrypoint >= 0x300 and entrypoint < 0x2000 }
rule ep_big { condition: entrypoint >= 0x2000 }
rule fs0 { condition: filesize == 0 }
rule fs1 { condition: filesize > 100 }
rule fs2 { condition: filesize > 20000 }
rule pe_is { condition: pe.is_pe }
rule pe_ns { condition: pe.number_of_sections > 5 }
rule pe_ep { condition: defined pe.entry_point and pe.entry_point > 0x1000 }
rule pe_64 { condition: pe.is_64bit() }
rule elf_def { condition: defined elf.type }
rule elf_ns { condition: elf.number_of_sections > 20 }
rule net { condition: dotnet.is_dotnet }
rule s_needle { strings: $a = "needle" condition: $a }
rule s_count { strings: $a = "ab" condition: #a > 3 }
rule s_off { strings: $a = "ab" condition: @a[1] == 2 or @a[2] == 7 }
rule s_wide { strings: $a = "needle" wide nocase condition: $a }
rule s_hex { strings: $a = { 6e 65 ?? 64 [0-3] 65 } condition: #a == 1 }
rule s_chain { strings: $a = { 6e 65 65 64 [200-300] 6c 65 } condition: $a }
rule fib { strings: $a = /x((a{1,40}){1,40}){1,40}y/ condition: $a }
rule pad { strings: PADSTRINGS condition: any of them }
rule many { strings: $a = "X" condition: #a > 10 }
rule many2 { strings: $a = "XX" condition: $a }
rule re1 { strings: $a = /ne+dle[0-9]{0,3}/ condition: $a }
rule re2 { strings: $a = /(ab|ba){2,4}x?/ condition: #a >= 2 }
rule h1 { condition: hash.checksum32(0, filesize) % 5 == 1 }
rule h2 { condition: hash.crc32(0, filesize) % 3 == 0 }
rule h3 { condition: hash.md5(0, filesize) == hash.md5(0, filesize) }
rule h4 { condition: hash.sha256(0, filesize) matches /^[0-7]/ }
rule h5 { condition: hash.md5(0, 8) == hash.md5(8, 8) or hash.md5(0, 9) matches /^[0-7]/ }
rule h6 { condition: hash.sha1(2, 5) matches /[0-3]$/ }
rule m1 { condition: math.entropy(0, filesize) > 4.0 }
rule ex1 { condition: xi > 5 }
rule ex2 { condition: xs contains "zz" }
private rule pr { condition: filesize > 3 }
global rule gl { condition: filesize < 10000000 }
'''


# 200 strings in front of the limit-hitting ones and 150 data-dependent rules after everything else: per-scan bitmaps
# (rule flags, disabled strings, required evaluation) span several 64-bit words, whichever count they are sized by
PROBE = PROBE.replace("PADSTRINGS", " ".join('$p%d = "pad%03dq"' % (i, i) for i in range(200)))
PROBE += "".join("rule zpad%d { condition: filesize %% 11 == %d or uint8(%d) == 0x%02x }\n" % (i, i % 11, i % 5, (0x4d, 0x7f, 0x61, 0x78)[i % 4])
                 for i in range(150))


def text_buffer(rng, with_matches):
    parts = []
    for _ in range(rng.randint(1, 12)):
        if with_matches and rng.random() < 0.5:
            parts.append(rng.choice([b"needle", b"ab", b"abab", b"n\x00e\x00e\x00d\x00l\x00e\x00", b"neeedle42", b"abbaabx",
                                     b"need" + b"-" * 210 + b"le", b"XX"]))
        else:
            parts.append(bytes(rng.choice(b"qrstuv \n") for _ in range(rng.randint(1, 20))))
    return b"".join(parts)


def build_case(seed_cid):
    seed, cid = seed_cid
    rng = random.Random(seed)
    vocab = rulegen.make_vocab(rng)
    extra = [rulegen.gen_rule(rng, vocab, "g%d" % k, "default", [], allow_flags=False) for k in range(rng.randint(0, 4))]
    text = PROBE + "\n".join(r.text for r in extra) + "\n"
    lines = ["cnew 0", "cdef 0 i %s 3" % hx("xi"), "cdef 0 s %s %s" % (hx("xs"), hx("ab")), "cadd 0 - " + hx(text),
             "crules 0 0"]
    # buffers
    kinds = []
    slots = {}
    heavy = rng.random() < 0.08
    # "textrev" has the size of "text" and other bytes: a digest cached for (offset, length) by an earlier scan is wrong for it
    order = ["pe", "elf", "text", "textrev", "notext", "empty", "rep"] + (["dotnet"] if rng.random() < 0.3 else []) + \
            (["fib"] if rng.random() < 0.25 else []) + \
            (["pe64"] if rng.random() < 0.3 else []) + (["elf32"] if rng.random() < 0.3 else []) + (["xs"] if heavy else [])
    for i, k in enumerate(order):
        slots[k] = i
        if k in FILES:
            lines.append("buffile %d %s%s" % (i, DATA, FILES[k]))
        elif k == "text":
            text_bytes = text_buffer(rng, True) + b"".join(s.sample(rng) for r in extra for s in r.strings)
            lines.append("buf %d %s" % (i, hx(text_bytes)))
        elif k == "textrev":
            lines.append("buf %d %s" % (i, hx(bytes(reversed(text_bytes)))))
        elif k == "notext":
            lines.append("buf %d %s" % (i, hx(text_buffer(rng, False))))
        elif k == "empty":
            lines.append("buf %d -" % i)
        elif k == "rep":
            lines.append("bufrep %d %s %d %s" % (i, hx(b"abba"), rng.choice([50, 2000]), hx(b"needle")))
        elif k == "xs":
            lines.append("buffile %d %sx.txt" % (i, DATA))
        elif k == "fib":
            lines.append("buf %d %s" % (i, hx(b"x" + b"a" * 3000 + b" needle abababab")))
    lines.append("vclockscale 1000000")
    lines.append("snew 0 0")
    sdefs = []
    steps = []
    nsteps = rng.randint(2, 12)
    for step in range(nsteps):
        # settings changes
        if rng.random() < 0.25:
            if rng.random() < 0.5:
                d = "i %s %d" % (hx("xi"), rng.choice([0, 6, 100]))
            else:
                d = "s %s %s" % (hx("xs"), hx(rng.choice([b"zz", b"azzb", b"", b"ab"])))
            sdefs.append(d)
            lines.append("sdef 0 " + d)
        k = rng.choice([x for x in order if x != "xs"])
        flags = rng.choice([0, 0, 8, 16, 24, 1, 1 | 8])
        mode = rng.choice(["mem", "mem", "file", "fd", "blocks"])
        timeout = 0
        script = "-"
        part = "-"
        notready = "-"
        maxcalls = "1000"
        opts = "-"
        kind = "plain"
        r = rng.random()
        if r < 0.18:
            script = "%d:%s" % (rng.randint(0, 40), rng.choice("ae"))
            kind = "callback-" + script[-1]
        elif r < 0.3:
            # virtual-clock timeout: deadline of `timeout` * 1000 work units
            timeout = rng.choice([1, 1, 2, 20])
            opts = "v"
            kind = "timeout"
        elif r < 0.45:
            mode = "blocks"
            part = "?"
            notready = ",".join(str(x) for x in sorted(rng.sample(range(0, 6), rng.randint(1, 3))))
            if rng.random() < 0.5:
                maxcalls = str(rng.choice([1, 2]))
                kind = "notready-abandoned"
            else:
                kind = "notready-resumed"
        elif heavy and r < 0.6:
            k = "xs"
            mode = "mem"
            script = rng.choice(["-", "t6:e", "t6:c"])
            kind = "too-many-matches" + script
        if kind == "plain" and rng.random() < 0.08:
            # memory of a live (idle) helper process; often ended early by the callback, which must not leave
            # SCAN_FLAGS_PROCESS_MEMORY or any other per-scan state behind
            mode = "proc"
            if rng.random() < 0.6:
                script = "%d:%s" % (rng.randint(0, 30), rng.choice("ae"))
            kind = "process" + ("-callback-" + script[-1] if script != "-" else "")
        if mode == "blocks" and rng.random() < 0.4:
            # iterator without a file_size callback: `filesize` must be undefined, whatever the scanner saw before
            opts = ("" if opts == "-" else opts) + "z"
            kind += "+nofilesize"
        steps.append((k, mode, flags, timeout, script, part, notready, maxcalls, opts, kind))
    sizes = {}
    cur_flags = None
    for (k, mode, flags, timeout, script, part, notready, maxcalls, opts, kind) in steps:
        if mode == "blocks":
            part = "@%d" % (1 + (len(notready) % 4))
        tail = "%s %s %s %s" % ("-" if part in ("-",) else part, notready, maxcalls, opts)
        # half of the time the reused scanner is NOT told its flags again (a fresh scanner has to be told once): flags set
        # by an earlier call must still be in force, and nothing else (e.g. a process-memory bit) may have been added
        if cur_flags is not None and rng.random() < 0.5:
            flags = cur_flags
            lines.append("scan s0 %s %d - %d %s %s" % (mode, slots[k], timeout, script, tail))
        else:
            lines.append("scan s0 %s %d %d %d %s %s" % (mode, slots[k], flags, timeout, script, tail))
        cur_flags = flags
        lines.append("snew 0 1")
        for d in sdefs_upto(lines, sdefs):
            lines.append("sdef 1 " + d)
        lines.append("scan s1 %s %d %d %d %s %s" % (mode, slots[k], flags, timeout, script, tail))
        lines.append("sdestroy 1")
    meta = dict(steps=[(s[0], s[1], s[2], s[9]) for s in steps], nextra=len(extra), heavy=heavy,
                src=text[-1500:])
    return Case(cid, lines, meta)


def sdefs_upto(lines, sdefs):
    """sdefs issued so far on s0 (in order) = those already present in `lines` as 'sdef 0 ...'"""
    return [l[len("sdef 0 "):] for l in lines if l.startswith("sdef 0 ")]


def evaluate(chk, case, res, stats):
    m = case.meta
    wit_base = {"history": m["steps"], "extra_rules": m["src"], "script": case.script()}
    if res.status != "ok":
        if res.status.startswith("flaky") or res.status in ("missing", "harness"):
            chk.inconc("%s: %s" % (case.cid, res.status))
            return
        if res.status == "leak":
            for k in common.leak_keys(res.stderr):
                chk.violation("leak-after-history:" + k, dict(wit_base, stderr=res.stderr[-3000:]))
            return
        key = common.sanitizer_key(res.stderr) if res.status == "crash" else "hang"
        chk.violation("%s:%s" % (res.status, key), dict(wit_base, stderr=res.stderr[-3000:]))
        return
    cadd = res.ops("cadd")
    if any(c["errors"] != 0 for c in cadd) or res.ops("crules")[0]["rc"] != 0:
        stats["rejected"] += 1
        return
    scans = res.ops("scan")
    stats["histories"] += 1
    prev_kinds = []
    for i, st in enumerate(m["steps"]):
        reused, fresh = scans[2 * i], scans[2 * i + 1]
        stats["scans"] += 1
        stats["outcomes"][st[3]] = stats["outcomes"].get(st[3], 0) + 1
        a = (reused["rc"], reused["msgs"], reused["matches"])
        b = (fresh["rc"], fresh["msgs"], fresh["matches"])
        if st[1] == "proc":
            # the memory of a live process is not constant between two scans (kernel-updated vvar page, for one): only
            # the return code is compared; what matters here is what the process scan leaves behind for LATER scans
            a, b = (reused["rc"],), (fresh["rc"],)
        if i > 0:
            stats["transitions"].add((m["steps"][i - 1][0], m["steps"][i - 1][3], st[0]))
        if a != b:
            diff = [x for x in reused["msgs"] if x not in fresh["msgs"]][:4] + [x for x in fresh["msgs"] if x not in reused["msgs"]][:4]
            chk.violation("reused-scanner-differs", dict(
                wit_base, step=i, this_scan=st, previous_scans=m["steps"][:i], rc_reused=reused["rc"], rc_fresh=fresh["rc"],
                differing_messages=diff,
                matches_differ=(reused["matches"] != fresh["matches"])))
            break
    if len(m["steps"]) >= 3:
        stats["nontrivial"].add(hashlib.sha256(repr(m["steps"]).encode()).hexdigest())
    if len(stats["samples"]) < 4:
        stats["samples"].append({"history": m["steps"][:8]})


def main(args):
    chk = common.Check(PID, args.tier, args.seed)
    exe = harness.get_exe("asan")
    ncases = int((600 if args.tier == "quick" else 10000) * args.scale)
    rng = chk.rng
    seeds = [(rng.getrandbits(64), "c%d" % i) for i in range(ncases)]
    with multiprocessing.Pool(16) as pool:
        cases = pool.map(build_case, seeds, chunksize=8)
    results = harness.run_cases(exe, cases, "c10", cpu=600, batch=4)
    stats = dict(histories=0, scans=0, nontrivial=set(), samples=[], rejected=0, outcomes={}, transitions=set())
    for c in cases:
        evaluate(chk, c, results[c.cid], stats)
    return chk.finish(
        evaluations=stats["scans"],
        distinct_nontrivial=len(stats["nontrivial"]),
        rule="random histories of 2-12 scans on ONE scanner over buffer kinds {PE32, PE32+, .NET, ELF64, ELF32, text "
             "with matches, text without, empty, large repetitive, 1 MB of 'X' hitting the match limit} x outcomes "
             "{success, CALLBACK_ABORT/ERROR at a random message, timeout (virtual clock), too-many-matches "
             "accepted/refused, not-ready suspended and resumed / abandoned} x entry points {mem, file, fd, blocks} x "
             "flag and external changes; every scan is repeated on a freshly created scanner with the same settings and "
             "return code, callback trace and match lists are compared; LSan runs after each history. Probe rules "
             "expose entrypoint, filesize, pe/elf/dotnet values, string presence/count/offset, regex, hash and math "
             "results. non-trivial = history with >=3 scans; distinct by sha256(history)",
        samples=stats["samples"],
        extra={"histories": stats["histories"], "outcome_kinds": stats["outcomes"],
               "distinct (previous buffer, previous outcome, this buffer) transitions": len(stats["transitions"])},
        assumptions=["'same settings' = same flags, timeout and the same sequence of scanner-level external definitions"],
        min_nontrivial=20)
