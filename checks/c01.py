"""C01 - text-string matches are exactly the documented occurrences.
Oracle: brute-force reference model (vlib/m_text.py) vs. the engine's complete match lists."""
import hashlib
import random

from vlib import common, harness, m_text
from vlib.harness import Case, hx

PID = "C01"
FITS_IN_ATOM = 0x800
FIXED_OFFSET = 0x8000


def build_case(rng, cid):
    nd = rng.choice([1, 1, 2, 3, 4])
    decls = [m_text.gen_decl(rng) for _ in range(nd)]
    nb = rng.choice([2, 3, 3])
    bufs = []
    near = []
    for _ in range(nb):
        b, nm = m_text.gen_buffer(rng, decls)
        bufs.append(b)
        near.append(nm)
    exp = [[m_text.expected(d, b) for b in bufs] for d in decls]
    src = ["rule A {", " strings:"]
    for i, d in enumerate(decls):
        src.append("  " + d.render("$s%d" % i, rng))
    src.append(" condition: any of them")
    src.append("}")
    brules = []
    for i, d in enumerate(decls):
        for j, b in enumerate(bufs):
            must, may, valid = exp[i][j]
            kind = rng.choice(["count", "at", "in", "at"])
            priv = rng.random() < 0.4
            cond = None
            want = None
            if kind == "count" and must == may and all(len(v) == 1 for v in valid.values()):
                offs = sorted(must)
                n = len(offs)
                cond = "#s == %d" % n
                if n:
                    k = rng.randint(1, n)
                    cond += " and @s[%d] == %d and !s[%d] == %d" % (k, offs[k - 1], k, list(valid[offs[k - 1]])[0][0])
                    cond += " and not defined @s[%d]" % (n + 1)
                want = True
            elif kind == "at":
                pool = sorted(may) + [0, max(0, len(b) - len(d.text)), rng.randint(0, len(b) + 2)]
                x = rng.choice(pool)
                if x in must:
                    want = True
                elif x not in may:
                    want = False
                cond = "$s at %d" % x
            else:
                lo = rng.randint(0, max(0, len(b)))
                hi = lo + rng.choice([0, 1, 5, 50, 1000])
                inr_must = any(lo <= o <= hi for o in must)
                inr_may = any(lo <= o <= hi for o in may)
                if inr_must:
                    want = True
                elif not inr_may:
                    want = False
                cond = "$s in (%d..%d)" % (lo, hi)
            if cond is None or want is None:
                continue
            name = "b%d_%d" % (i, j)
            src.append("rule %s { strings: %s condition: %s }" % (name, d.render("$s", rng, private=priv), cond))
            brules.append((name, i, j, cond, want, priv))
    text = "\n".join(src) + "\n"
    lines = ["dumpac 2", "cnew 0", "cadd 0 - " + hx(text), "crules 0 0"]
    if rng.random() < 0.25:
        # YR_CONFIG_MAX_MATCH_DATA only limits the bytes copied for the callback; offsets and lengths must not depend on it
        lines.insert(0, "cfg matchdata %d" % rng.choice([0, 1, 2, 5, 64, 4096]))
    for j, b in enumerate(bufs):
        lines.append("buf %d %s" % (j, hx(b)))
        lines.append("scan r0 mem %d 0 0 -" % j)
    meta = dict(decls=decls, bufs=bufs, exp=exp, brules=brules, src=text, near=near)
    return Case(cid, lines, meta)


def bulk_case(rng, cid, n=400):
    """hundreds of plain strings of one length that agree up to an embedded NUL (the compiler pools string literals in a
    hash table keyed by their raw bytes), each planted once"""
    prefix = bytes([rng.choice(b"MaZ"), rng.randrange(1, 256), rng.randrange(1, 256), 0])
    tails = set()
    while len(tails) < n:
        tails.add(bytes(rng.randrange(256) for _ in range(4)))
    decls = [m_text.TextDecl(prefix + t, ascii_=(i % 3 == 0)) for i, t in enumerate(sorted(tails))]
    order = list(range(n))
    rng.shuffle(order)
    buf = b"".join(decls[i].text + bytes(rng.choice(b"xyz ") for _ in range(rng.choice([0, 1, 3]))) for i in order)
    exp = [[m_text.expected(d, buf)] for d in decls]
    src = ["rule A {", " strings:"] + ["  " + d.render("$s%d" % i, rng) for i, d in enumerate(decls)] + [" condition: any of them", "}"]
    text = "\n".join(src) + "\n"
    lines = ["dumpac 2", "cnew 0", "cadd 0 - " + hx(text), "crules 0 0", "buf 0 " + hx(buf), "scan r0 mem 0 0 0 -"]
    return Case(cid, lines, dict(decls=decls, bufs=[buf], exp=exp, brules=[], src=text[:3000] + "...", near=[1]))


def evaluate(chk, case, res, stats):
    m = case.meta
    wit_base = {"rule_source": m["src"], "buffers_hex": [b.hex() for b in m["bufs"]], "script": case.script()}
    if res.status != "ok":
        key = res.status
        if res.status in ("crash", "leak"):
            key = common.sanitizer_key(res.stderr) if res.status == "crash" else common.leak_keys(res.stderr)[0]
        if res.status.startswith("flaky") or res.status in ("missing", "harness"):
            chk.inconc("%s: %s" % (case.cid, res.status))
            return
        chk.violation("%s:%s" % (res.status, key), dict(wit_base, stderr=res.stderr[-3000:]))
        return
    cadd = res.ops("cadd")
    crules = res.ops("crules")
    if not cadd or cadd[0]["errors"] != 0 or not crules or crules[0]["rc"] != 0:
        chk.violation("legal-declaration-rejected", dict(wit_base, compile=cadd, crules=crules))
        return
    info = crules[0]
    # coverage signature
    ruleA = [r for r in info["rules"] if r["id"] == "A"][0]
    ac = info.get("ac", {})
    # strings_table index of A's strings = order of declaration (A is first rule)
    for i, d in enumerate(m["decls"]):
        st = ruleA["strings"][i]
        flags = st[1]
        bts = tuple(sorted(ac.get(str(i), [])))[:6]
        stats["sigs"].add((d.sig(), bts, bool(flags & FITS_IN_ATOM)))
    scans = res.ops("scan")
    if len(scans) != len(m["bufs"]):
        chk.inconc("%s: scan count" % case.cid)
        return
    for j, sc in enumerate(scans):
        buf = m["bufs"][j]
        if sc["rc"] != 0:
            chk.violation("scan-error-rc%d" % sc["rc"], dict(wit_base, scan=j))
            continue
        if sc["inv"]:
            chk.violation("list-invariant:" + sc["inv"][0][0], dict(wit_base, scan=j, inv=sc["inv"]))
        verdicts = {mm[1]: mm[0] for mm in sc["msgs"] if mm[0] in (1, 2)}
        got_all = sc["matches"].get("default:A", {})
        anyrep = False
        for i, d in enumerate(m["decls"]):
            must, may, valid = m["exp"][i][j]
            rep = got_all.get("$s%d" % i, [])
            stats["pairs"] += 1
            if rep:
                anyrep = True
            roffs = [r[0] for r in rep]
            rset = set(roffs)
            h = hashlib.sha256(d.render("$s").encode() + buf).hexdigest()
            nontriv = bool(must) and m["near"][j] > 0
            if nontriv:
                stats["nontrivial"].add(h)
            if may - must:
                stats["ambiguous"] += 1
            w = dict(wit_base, string=d.render("$s%d" % i), buffer_hex=buf.hex(), expected_must=sorted(must),
                     expected_may=sorted(may), reported=rep)
            missing = must - rset
            extra = rset - may
            if missing:
                chk.violation("missed-occurrence", dict(w, missing=sorted(missing)))
            if extra:
                chk.violation("spurious-match", dict(w, extra=sorted(extra)))
            for off, ln, key in rep:
                if off in valid and (ln, key) not in valid[off]:
                    chk.violation("wrong-length-or-key", dict(w, at=off, got=[ln, key], valid=sorted(valid[off])))
            if len(stats["samples"]) < 6 and nontriv:
                stats["samples"].append({"string": d.render("$s"), "buffer_hex": buf.hex()[:200],
                                         "expected_offsets": sorted(must)[:10], "reported": rep[:10]})
        va = verdicts.get("default:A")
        if va is None or (va == 1) != anyrep:
            chk.violation("verdict-vs-list", dict(wit_base, scan=j, verdict=va, any_reported=anyrep))
        for name, i, jj, cond, want, priv in m["brules"]:
            if jj != j:
                continue
            v = verdicts.get("default:" + name)
            stats["verdict_rules"] += 1
            if v is None or (v == 1) != want:
                chk.violation("one-string-rule-verdict", dict(
                    wit_base, rule=name, condition=cond, string=m["decls"][i].render("$s", private=priv),
                    buffer_hex=buf.hex(), expected=want, verdict=v))
            if priv and got_all is not None and sc["matches"].get("default:" + name):
                chk.violation("private-string-visible", dict(wit_base, rule=name))


def exhaustive_cases(limit=None):
    """All patterns of length <= 3 over a 4-symbol alphabet x modifier subsets x all buffers of length <= 7
    over that alphabet is 4^7 buffers; we pack many buffers per compile."""
    import itertools
    alpha = [0x61, 0x41, 0x00, 0x2e]
    modsets = []
    for nocase in (False, True):
        for w in ("a", "w", "aw"):
            for fw in (False, True):
                modsets.append(dict(nocase=nocase, ascii_=("a" in w and w != "a") or False, wide="w" in w, fullword=fw))
    for w in ("a", "w", "aw"):
        for fw in (False, True):
            modsets.append(dict(ascii_=(w == "aw"), wide="w" in w, fullword=fw, xor=(0, 255)))
            modsets.append(dict(ascii_=(w == "aw"), wide="w" in w, fullword=fw, xor=(0x20, 0x21)))
    pats = []
    for n in (1, 2, 3):
        for t in itertools.product(alpha, repeat=n):
            pats.append(bytes(t))
    return alpha, modsets, pats


def run_exhaustive(chk, exe, stats, rng, npat, nbuf_len):
    """Small-scope sweep: sampled patterns x all modifier sets, each against ALL buffers of
    length <= nbuf_len over the 4-symbol alphabet (concatenated with separators is not valid, so
    buffers are scanned one by one, 16 per case)."""
    import itertools
    alpha, modsets, pats = exhaustive_cases()
    bufs = []
    for n in range(0, nbuf_len + 1):
        for t in itertools.product(alpha, repeat=n):
            bufs.append(bytes(t))
    chosen = pats if npat >= len(pats) else rng.sample(pats, npat)
    cases = []
    cid = 0
    for p in chosen:
        decls = [m_text.TextDecl(p, **ms) for ms in modsets]
        # 8 decls per rule to keep atoms manageable
        for g in range(0, len(decls), 6):
            grp = decls[g:g + 6]
            for bstart in range(0, len(bufs), 14):
                bb = bufs[bstart:bstart + 14]
                src = "rule A { strings:\n" + "\n".join("  " + d.render("$s%d" % i) for i, d in enumerate(grp)) + \
                      "\n condition: any of them }\n"
                lines = ["dumpac 2", "cnew 0", "cadd 0 - " + hx(src), "crules 0 0"]
                for j, b in enumerate(bb):
                    lines.append("buf %d %s" % (j, hx(b)))
                    lines.append("scan r0 mem %d 0 0 -" % j)
                meta = dict(decls=grp, bufs=bb, exp=[[m_text.expected(d, b) for b in bb] for d in grp], brules=[],
                            src=src, near=[1] * len(bb))
                cases.append(Case("x%d" % cid, lines, meta))
                cid += 1
    results = harness.run_cases(exe, cases, "c01x", cpu=300)
    for c in cases:
        evaluate(chk, c, results[c.cid], stats)
    stats["exhaustive_pairs"] = sum(len(c.meta["decls"]) * len(c.meta["bufs"]) for c in cases)
    return len(cases)


def main(args):
    chk = common.Check(PID, args.tier, args.seed)
    exe = harness.get_exe("asan")
    ncases = int((3000 if args.tier == "quick" else 30000) * args.scale)
    rng = chk.rng
    cases = [build_case(random.Random(rng.getrandbits(64)), "c%d" % i) for i in range(ncases)]
    cases += [bulk_case(random.Random(rng.getrandbits(64)), "bulk%d" % i) for i in range(2 if args.tier == "quick" else 12)]
    results = harness.run_cases(exe, cases, "c01", cpu=300)
    stats = dict(sigs=set(), pairs=0, nontrivial=set(), ambiguous=0, samples=[], verdict_rules=0)
    for c in cases:
        evaluate(chk, c, results[c.cid], stats)
    if args.tier == "quick":
        nx = run_exhaustive(chk, exe, stats, rng, npat=6, nbuf_len=4)
    else:
        nx = run_exhaustive(chk, exe, stats, rng, npat=10 ** 6, nbuf_len=6)
    return chk.finish(
        evaluations=stats["pairs"],
        distinct_nontrivial=len(stats["nontrivial"]),
        rule="(string declaration, buffer) pairs: random declarations over skewed alphabets with every legal modifier "
             "set, buffers built around planted variants/near-misses/neighbours; plus a small-scope sweep (patterns "
             "of length<=3 over {a,A,00,2e} x 30 modifier sets x ALL buffers up to a length bound). non-trivial = "
             "model expects >=1 mandatory match AND the buffer contains a planted near-miss; distinct by sha256 of "
             "(declaration, buffer)",
        samples=stats["samples"],
        extra={"compilations": len(cases) + nx, "distinct_signatures(flags,backtracks,fits_in_atom)": len(stats["sigs"]),
               "pairs_with_ambiguous_fullword_offsets": stats["ambiguous"],
               "one_string_rule_verdicts_checked": stats["verdict_rules"],
               "small_scope_pairs": stats.get("exhaustive_pairs", 0),
               "sanitizer": "gcc ASan+UBSan(subset)+LSan, one process per batch"},
        assumptions=["fullword on wide/xor occurrences: offsets whose delimiters are ambiguous in the manual are "
                     "accepted either way (counted above)",
                     "where several variants match at one offset any valid (length,key) is accepted"],
        min_nontrivial=20)
