"""C05 - a rule's result does not depend on what else is compiled with it.
Oracle: differential between compilations of the real engine (alone / in company / permuted /
source text cut differently into add-source calls and includes)."""
import hashlib
import multiprocessing
import random

from vlib import common, harness, rulegen
from vlib.harness import Case, hx

PID = "C05"


def closure(rules_by_name, name):
    seen = []
    stack = [name]
    while stack:
        n = stack.pop()
        if n in seen:
            continue
        seen.append(n)
        stack.extend(rules_by_name[n].refs)
    return seen


def topo_shuffle(rng, rules):
    """random order in which every rule follows the rules it references"""
    remaining = list(rules)
    rng.shuffle(remaining)
    out = []
    placed = set()
    while remaining:
        for i, r in enumerate(remaining):
            if all(x in placed for x in r.refs):
                out.append(r)
                placed.add(r.name)
                del remaining[i]
                break
        else:
            out.extend(remaining)
            break
    return out


def ns_text(rules, imports=()):
    return "".join('import "%s"\n' % m for m in imports) + "\n".join(r.text for r in rules) + "\n"


def build_case(seed_cid, big=False):
    seed, cid = seed_cid
    rng = random.Random(seed)
    vocab = rulegen.make_vocab(rng)
    nns = rng.choice([1, 2, 3])
    # names that are prefixes of one another, in random order
    nss = rng.sample(["ns", "ns1", "ns10", "n", "ns1x", "corp", "corp_eu", "a", "ab", "abc"], nns) if rng.random() < 0.5 else ["ns%d" % i for i in range(nns)]
    pool = {}
    for ns in nss:
        lst = []
        cnt = rng.randint(3, 12) if not big else rng.randint(300, 900)
        for k in range(cnt):
            earlier = [r.name for r in lst]
            lst.append(rulegen.gen_rule(rng, vocab, "r%d" % k, ns, earlier, modules=("math", "hash", "pe") if rng.random() < 0.3 else ()))
        pool[ns] = lst
    allrules = [r for ns in nss for r in pool[ns]]
    bufs = rulegen.gen_buffers(rng, allrules, n=3)
    nb = len(bufs)
    lines = []
    for j, b in enumerate(bufs):
        lines.append("buf %d %s" % (j, hx(b)))
    plan = []   # (label, kind, rules considered) per compilation, in order of crules ops

    def emit_compile(label, pieces, kind, consider):
        """pieces: list of (ns, text)"""
        lines.append("cnew 0")
        for ns, text in pieces:
            lines.append("cadd 0 %s %s" % (hx(ns), hx(text)))
        lines.append("crules 0 0")
        for j in range(nb):
            lines.append("scan r0 mem %d 0 0 -" % j)
        plan.append((label, kind, consider, len(pieces)))

    def imports_of(rules):
        out = []
        for r in rules:
            for m in r.imports:
                if m not in out:
                    out.append(m)
        return out

    # 1. full compilation
    emit_compile("full", [(ns, ns_text(pool[ns], imports_of(pool[ns]))) for ns in nss], "full", None)
    # 2. targets alone (+ the rules they reference + the global rules of their namespace)
    targets = [r for r in allrules if "private" not in r.flags]
    rng.shuffle(targets)
    for t in targets[:4 if not big else 8]:
        byname = {r.name: r for r in pool[t.ns]}
        need = set(closure(byname, t.name))
        for r in pool[t.ns]:
            if "global" in r.flags:
                need.update(closure(byname, r.name))
        sub = [r for r in pool[t.ns] if r.name in need]
        emit_compile("alone:%s:%s" % (t.ns, t.name), [(t.ns, ns_text(sub, imports_of(sub)))], "alone",
                     ["%s:%s" % (t.ns, t.name)])
    # 3. permutation of namespaces and rules
    perm_ns = list(nss)
    rng.shuffle(perm_ns)
    emit_compile("permuted", [(ns, ns_text(topo_shuffle(rng, pool[ns]), imports_of(pool[ns]))) for ns in perm_ns],
                 "perm", None)
    # 4. same text cut into several add-source calls and nested includes
    pieces = []
    incl_id = 0
    for ns in nss:
        rules = pool[ns]
        imps = imports_of(rules)
        cuts = sorted(set(rng.randint(1, len(rules)) for _ in range(rng.randint(0, 3))) | {len(rules)})
        start = 0
        first = True
        for c in cuts:
            seg = rules[start:c]
            start = c
            if not seg:
                continue
            text = ns_text(seg, imps if first else ())
            first = False
            if rng.random() < 0.4:
                # move the segment (or its tail) into an include, possibly nested
                fname = "inc%d.yar" % incl_id
                incl_id += 1
                if len(seg) > 1 and rng.random() < 0.5:
                    inner = "inc%d.yar" % incl_id
                    incl_id += 1
                    lines.append("incl %s %s" % (hx(inner), hx(ns_text(seg[1:]))))
                    lines.append("incl %s %s" % (hx(fname), hx(ns_text(seg[:1], imps) + 'include "%s"\n' % inner)))
                else:
                    lines.append("incl %s %s" % (hx(fname), hx(text)))
                text = 'include "%s"\n' % fname
            pieces.append((ns, text))
    if len(nss) > 1 and rng.random() < 0.6:
        # interleave the namespaces (A, B, A, ...): a namespace may be re-opened after another one was used;
        # the order of the pieces of one namespace is kept
        queues = {ns: [p for p in pieces if p[0] == ns] for ns in nss}
        merged = []
        while any(queues.values()):
            ns = rng.choice([n for n in nss if queues[n]])
            merged.append(queues[ns].pop(0))
        pieces = merged
    emit_compile("cut", pieces, "cut", None)
    # 5. company added afterwards: a new namespace with colliding strings and a global rule *there*
    extra = []
    for k in range(rng.randint(2, 8) if not big else 200):
        extra.append(rulegen.gen_rule(rng, vocab, "x%d" % k, "zz", [r.name for r in extra]))
    gl = "global rule xg { condition: filesize > 1000000 }\n"
    emit_compile("extras-alone", [("zz", gl + ns_text(extra))], "extras", [])
    emit_compile("extended", [(ns, ns_text(pool[ns], imports_of(pool[ns]))) for ns in nss] +
                 [("zz", gl + ns_text(extra))], "ext", ["%s:%s" % (r.ns, r.name) for r in allrules])
    meta = dict(plan=plan, nb=nb, nrules=len(allrules), bufs=[b.hex()[:400] for b in bufs],
                full_text="\n".join("// namespace %s\n%s" % (ns, ns_text(pool[ns], imports_of(pool[ns]))) for ns in nss),
                nstrings=sum(len(r.strings) for r in allrules))
    return Case(cid, lines, meta)


def build_big(seed_cid):
    return build_case(seed_cid, big=True)


def evaluate(chk, case, res, stats):
    m = case.meta
    wit_base = {"full_rule_text": m["full_text"][:20000], "script": case.script() if len(case.script()) < 400000 else "(too large)",
                "buffers_hex_prefix": m["bufs"]}
    if res.status != "ok":
        if res.status.startswith("flaky") or res.status in ("missing", "harness"):
            chk.inconc("%s: %s" % (case.cid, res.status))
            return
        key = common.sanitizer_key(res.stderr) if res.status == "crash" else (
            common.leak_keys(res.stderr)[0] if res.status == "leak" else "hang")
        chk.violation("%s:%s" % (res.status, key), dict(wit_base, stderr=res.stderr[-3000:]))
        return
    ops = [r for r in res.results if r.get("op") in ("cadd", "crules", "scan")]
    pos = 0
    comp = []
    for label, kind, consider, npieces in m["plan"]:
        cadds = ops[pos:pos + npieces]
        pos += npieces
        cr = ops[pos]
        pos += 1
        scans = ops[pos:pos + m["nb"]]
        pos += m["nb"]
        ok = all(c.get("errors") == 0 for c in cadds) and cr.get("rc") == 0
        errs = [mm[3] for c in cadds for mm in c.get("msgs", []) if mm[0] == 0]
        comp.append((label, kind, consider, ok, errs, scans))
    full = comp[0]
    if not full[3]:
        stats["full_rejected"] += 1
        stats["reject_msgs"].add((full[4] or ["?"])[0][:60])
        return
    stats["cases"] += 1
    fullsig = [rulegen.scan_signature(s) for s in full[5]]
    nontrivial = any(v[0] == 1 for sig in fullsig for v in sig.values())
    extras_ok = all(c[3] for c in comp if c[1] == "extras")
    for label, kind, consider, ok, errs, scans in comp[1:]:
        stats["compilations"] += 1
        if kind == "extras":
            continue
        if kind == "ext" and not extras_ok:
            stats["extras_invalid"] = stats.get("extras_invalid", 0) + 1
            continue
        if not ok:
            chk.violation("compile-outcome-differs:" + kind, dict(wit_base, variant=label, errors=errs[:3]))
            continue
        for j, sc in enumerate(scans):
            if sc["rc"] != full[5][j]["rc"]:
                chk.violation("scan-rc-differs:" + kind, dict(wit_base, variant=label, buffer=j, rc=sc["rc"],
                                                              rc_full=full[5][j]["rc"]))
                continue
            sig = rulegen.scan_signature(sc)
            keys = consider if consider is not None else list(fullsig[j].keys())
            for k in keys:
                if k not in fullsig[j] and k not in sig:
                    continue
                stats["comparisons"] += 1
                a, b = fullsig[j].get(k), sig.get(k)
                if a != b:
                    chk.violation("result-differs:" + kind, dict(wit_base, variant=label, rule=k, buffer=j,
                                                                 in_full_rule_set=a, in_variant=b))
                    break
            if sc["inv"]:
                chk.violation("list-invariant:" + sc["inv"][0][0], dict(wit_base, variant=label, inv=sc["inv"][:3]))
    if nontrivial:
        stats["nontrivial"].add(hashlib.sha256(m["full_text"].encode()).hexdigest())
    if len(stats["samples"]) < 4:
        stats["samples"].append({"rules": m["nrules"], "strings": m["nstrings"], "variants": [c[0] for c in comp][:8],
                                 "first_rule": m["full_text"][:300]})


def main(args):
    chk = common.Check(PID, args.tier, args.seed)
    exe = harness.get_exe("asan")
    ncases = int((400 if args.tier == "quick" else 6000) * args.scale)
    nbig = int((2 if args.tier == "quick" else 16) * args.scale)
    rng = chk.rng
    seeds = [(rng.getrandbits(64), "c%d" % i) for i in range(ncases)]
    bseeds = [(rng.getrandbits(64), "big%d" % i) for i in range(nbig)]
    with multiprocessing.Pool(16) as pool:
        cases = pool.map(build_case, seeds, chunksize=8)
        cases += pool.map(build_big, bseeds, chunksize=1)
    results = harness.run_cases(exe, cases, "c05", cpu=600, batch=4)
    stats = dict(cases=0, compilations=0, comparisons=0, nontrivial=set(), samples=[], full_rejected=0, reject_msgs=set())
    for c in cases:
        evaluate(chk, c, results[c.cid], stats)
    if stats["full_rejected"] > 0.2 * len(cases):
        print("HARNESS: too many generated rule sets rejected: %s" % sorted(stats["reject_msgs"])[:5])
        return common.EXIT_HARNESS
    return chk.finish(
        evaluations=stats["comparisons"],
        distinct_nontrivial=len(stats["nontrivial"]),
        rule="per generated rule pool (1-3 namespaces, text/hex/regex strings drawn from a shared vocabulary so atoms, "
             "prefixes and suffixes collide; rule references, global/private rules, imports): the full compilation is "
             "compared rule-by-rule (verdict + complete match lists, 3-4 buffers) with (a) each sampled target compiled "
             "alone with only its dependencies, (b) a dependency-respecting permutation of namespaces and rules, (c) "
             "the same text cut into several add-source calls and nested includes, (d) the pool extended by a new "
             "namespace. evaluations = rule-result comparisons; non-trivial = pool in which at least one rule matches; "
             "distinct by sha256 of the pool text. Two pools per quick run have 300-900 rules per namespace.",
        samples=stats["samples"],
        extra={"rule_pools": stats["cases"], "variant_compilations": stats["compilations"],
               "pools_rejected_by_compiler": stats["full_rejected"], "reject_messages": sorted(stats["reject_msgs"])[:5]},
        assumptions=["the alone-variant keeps the global rules of the target's namespace (the property's side condition)"],
        min_nontrivial=10)
