"""C20 - external variables are typed, scoped and isolated.
Oracle: three-level environment model (compile-time -> rule set -> per-scanner copy taken at creation)
checked on random operation sequences; values are read back through probe rules."""
import hashlib
import multiprocessing
import random

from vlib import common, harness
from vlib.harness import Case, hx

PID = "C20"
E_ARG, E_TYPE, E_DUP = 29, 48, 56
INT_DOM = [0, 1, 2, 3, 5, 7, -1]
FLT_DOM = [0.5, 1.5, 2.25, -3.0]
STR_DOM = [b"", b"a", b"bb", b"needle", b"a b", b"Abc"]
VARS0 = [("xi", "i"), ("xj", "i"), ("xb", "b"), ("xf", "f"), ("xs", "s"), ("xt", "s")]
# the same, with the names of built-in modules (which the rules do not import): externals and module structures share the
# scanner's object table
# long names sharing prefixes (the object tables are hash tables with few buckets: a lookup must compare whole keys)
VARS_LONG = [("opt_level", "i"), ("opt_level_max", "i"), ("opt", "b"), ("option_f", "f"), ("opt_s", "s"), ("opt_level_maximum", "s")]
VARS_MOD = [("math", "i"), ("pe", "i"), ("console", "b"), ("hash", "f"), ("time", "s"), ("string", "s")]


def probes_for(name, typ):
    """[(rule name, condition, python predicate over the value)]"""
    out = []
    if typ == "i":
        for v in INT_DOM:
            out.append(("%s_eq_%s" % (name, str(v).replace("-", "m")), "%s == %d" % (name, v), lambda x, v=v: x == v))
        out.append((name + "_mul", "%s * 2 > 5" % name, lambda x: x * 2 > 5))
        out.append((name + "_and", "%s & 1 == 1" % name, lambda x: (x & 1) == 1))
        out.append((name + "_shr", "%s >> 1 == 1" % name, lambda x: (x >> 1 == 1) if x >= 0 else ((x >> 1) == 1)))
        out.append((name + "_neg", "-%s < 0" % name, lambda x: -x < 0))
        out.append((name + "_bool", "%s" % name, lambda x: x != 0))
        out.append((name + "_rng", "for any k in (0..%s) : (k == 2)" % name, None))
    elif typ == "b":
        out.append((name + "_t", name, lambda x: bool(x)))
        out.append((name + "_n", "not %s" % name, lambda x: not x))
        out.append((name + "_and", "%s and filesize >= 0" % name, lambda x: bool(x)))
    elif typ == "f":
        for v in FLT_DOM:
            out.append(("%s_eq_%d" % (name, FLT_DOM.index(v)), "%s == %r" % (name, v), lambda x, v=v: x == v))
        out.append((name + "_lt", "%s < 1.0" % name, lambda x: x < 1.0))
        out.append((name + "_add", "%s + 1 > 2" % name, lambda x: x + 1 > 2))
    else:
        for v in STR_DOM:
            out.append(("%s_eq_%d" % (name, STR_DOM.index(v)), '%s == "%s"' % (name, v.decode()), lambda x, v=v: x == v))
        out.append((name + "_cont", '%s contains "e"' % name, lambda x: b"e" in x))
        out.append((name + "_icont", '%s icontains "A"' % name, lambda x: b"a" in x.lower()))
        out.append((name + "_re", "%s matches /^a/" % name, lambda x: x.startswith(b"a")))
        out.append((name + "_starts", '%s startswith "ne"' % name, lambda x: x.startswith(b"ne")))
        out.append((name + "_lt", '%s < "b"' % name, lambda x: x < b"b"))
    return out


def rnd_value(rng, typ):
    if typ == "i":
        return rng.choice(INT_DOM)
    if typ == "b":
        return rng.choice([0, 1, 1, 2])
    if typ == "f":
        return rng.choice(FLT_DOM)
    return rng.choice(STR_DOM)


def fmt(typ, v):
    if typ == "s":
        return hx(v)
    if typ == "f":
        return repr(float(v))
    return "%d" % v


def build_case(seed_cid):
    seed, cid = seed_cid
    rng = random.Random(seed)
    VARS = rng.choice([VARS0, VARS0, VARS0, VARS_MOD, VARS_LONG])
    if VARS is VARS_LONG and rng.random() < 0.7:
        # fresh names in every case: which identifiers share a bucket of a 64-bucket table depends on the names
        w = "".join(rng.choice("abcdefghijklmnopqrstuvwxyz_0123456789") for _ in range(rng.randint(2, 5)))
        w = "v" + w
        VARS = [(w + "_level", "i"), (w + "_level_max", "i"), (w, "b"), (w + "ion_f", "f"), (w + "_s", "s"), (w + "_level_maximum", "s")]

    def unknown_like(defined):
        """an identifier that is NOT defined but is a prefix or an extension of a defined one"""
        cands = set()
        for n in defined:
            cands.update(n[:k] for k in range(1, len(n)))
            cands.update([n + "x", n + "_1", n + n[-1]])
        cands -= set(defined)
        cands -= set(v for v, _t in VARS)
        return rng.choice(sorted(cands)) if cands else "nope"
    lines = ["cnew 0"]
    expect = []          # per emitted op that returns a code or a scan: ("rc", want) / ("scan", env copy) / None
    comp = {}            # name -> (type, value)
    # compiler-level defines (valid + duplicates)
    for _ in range(rng.randint(2, 9)):
        name, typ = rng.choice(VARS)
        if rng.random() < 0.15:
            typ = rng.choice("ibfs")      # duplicate with another type
        v = rnd_value(rng, typ)
        lines.append("cdef 0 %s %s %s" % (typ, hx(name), fmt(typ, v)))
        if name in comp:
            expect.append(("rc", "cdef", E_DUP))
        else:
            comp[name] = (typ, v)
            expect.append(("rc", "cdef", 0))
    probes = []
    for name, (typ, v) in sorted(comp.items()):
        probes += [(n, c, f, name) for n, c, f in probes_for(name, typ)]
    src = "\n".join("rule %s { condition: %s }" % (n, c) for n, c, f, _v in probes) + "\nrule always { condition: true }\n"
    lines += ["cadd 0 - " + hx(src), "crules 0 0", "buf 0 " + hx(b"some data")]
    rules_env = dict(comp)
    scanners = {}        # slot -> env
    nops = rng.randint(4, 25)
    for _ in range(nops):
        r = rng.random()
        if r < 0.2:
            # rules-level define
            name, _t = rng.choice(VARS + [("nope", "i")])
            if rng.random() < 0.25:
                name = unknown_like(comp)
            typ = rng.choice("ibfs") if rng.random() < 0.3 else (comp[name][0] if name in comp else "i")
            v = rnd_value(rng, typ)
            lines.append("rdef 0 %s %s %s" % (typ, hx(name), fmt(typ, v)))
            if name not in comp:
                expect.append(("rc", "rdef", E_ARG))
            elif comp[name][0] != typ:
                expect.append(("rc", "rdef", E_TYPE))
            else:
                rules_env[name] = (typ, v)
                expect.append(("rc", "rdef", 0))
        elif r < 0.35 and len(scanners) < 3:
            slot = min(s for s in range(3) if s not in scanners)
            lines.append("snew 0 %d" % slot)
            scanners[slot] = dict(rules_env)
            expect.append(("rc", "snew", 0))
        elif r < 0.6 and scanners:
            slot = rng.choice(sorted(scanners))
            name, _t = rng.choice(VARS + [("nope", "s")])
            if rng.random() < 0.25:
                name = unknown_like(comp)
            typ = rng.choice("ibfs") if rng.random() < 0.3 else (comp[name][0] if name in comp else "s")
            v = rnd_value(rng, typ)
            lines.append("sdef %d %s %s %s" % (slot, typ, hx(name), fmt(typ, v)))
            if name not in comp:
                expect.append(("rc", "sdef", E_ARG))
            else:
                vt = comp[name][0]
                obj = "int" if vt in "ib" else vt
                want_obj = "int" if typ in "ib" else typ
                if obj != want_obj:
                    expect.append(("rc", "sdef", E_TYPE))
                else:
                    scanners[slot][name] = (vt, v)
                    expect.append(("rc", "sdef", 0))
        elif r < 0.9:
            if scanners and rng.random() < 0.7:
                slot = rng.choice(sorted(scanners))
                lines.append("scan s%d mem 0 - - -" % slot)
                expect.append(("scan", "scanner %d" % slot, dict(scanners[slot])))
            else:
                lines.append("scan r0 mem 0 0 0 -")
                expect.append(("scan", "rules", dict(rules_env)))
        elif scanners:
            slot = rng.choice(sorted(scanners))
            lines.append("sdestroy %d" % slot)
            del scanners[slot]
    if VARS is not VARS0 and VARS is not VARS_MOD and scanners:
        # a burst of definitions of identifiers that do not exist (prefixes/extensions of existing ones): all refused
        for _ in range(16):
            slot = rng.choice(sorted(scanners))
            name = unknown_like(comp)
            lines.append("sdef %d i %s 1" % (slot, hx(name)))
            expect.append(("rc", "sdef", E_ARG))
    # final read-back of everything still alive
    for slot in sorted(scanners):
        lines.append("scan s%d mem 0 - - -" % slot)
        expect.append(("scan", "scanner %d" % slot, dict(scanners[slot])))
    lines.append("scan r0 mem 0 0 0 -")
    expect.append(("scan", "rules", dict(rules_env)))
    pm = [(n, c, v) for n, c, f, v in probes]
    meta = dict(expect=[(e[0], e[1], e[2] if e[0] == "rc" else {k: (t, x.hex() if isinstance(x, bytes) else x) for k, (t, x) in e[2].items()})
                        for e in expect],
                probes=pm, src=src, nvars=len(comp), seed=seed)
    return Case(cid, lines, meta)


def predicate(name, typ):
    return {n: f for n, c, f in probes_for(name, typ)}


def evaluate(chk, case, res, stats):
    m = case.meta
    wit_base = {"script": case.script(), "probe_rules": m["src"][:3000]}
    if res.status != "ok":
        if res.status.startswith("flaky") or res.status in ("missing", "harness"):
            chk.inconc("%s: %s" % (case.cid, res.status))
            return
        if res.status == "leak":
            for k in common.leak_keys(res.stderr):
                chk.violation("leak:" + k, dict(wit_base, stderr=res.stderr[-2500:]))
            return
        key = common.sanitizer_key(res.stderr) if res.status == "crash" else "hang"
        chk.violation("%s:%s" % (res.status, key), dict(wit_base, stderr=res.stderr[-3000:]))
        return
    cadd = res.ops("cadd")
    if cadd[0]["errors"] != 0:
        chk.violation("probe-rules-rejected", dict(wit_base, msgs=cadd[0]["msgs"][:3]))
        return
    ops = [r for r in res.results if r.get("op") in ("cdef", "rdef", "sdef", "snew", "scan")]
    if len(ops) != len(m["expect"]):
        chk.inconc("%s: op count %d vs %d" % (case.cid, len(ops), len(m["expect"])))
        return
    stats["sequences"] += 1
    for i, (e, got) in enumerate(zip(m["expect"], ops)):
        if e[0] == "rc":
            stats["ops"][e[1]] = stats["ops"].get(e[1], 0) + 1
            stats["codes"].add((e[1], e[2]))
            if got["rc"] != e[2]:
                chk.violation("wrong-return-code:%s" % e[1], dict(wit_base, op_index=i, expected=e[2], got=got["rc"]))
                return
        else:
            stats["scans"] += 1
            env = e[2]
            verd = {mm[1].split(":", 1)[1]: mm[0] for mm in got["msgs"] if mm[0] in (1, 2)}
            if got["rc"] != 0:
                chk.violation("scan-failed-rc%d" % got["rc"], dict(wit_base, op_index=i))
                return
            for n, cond, var in m["probes"]:
                typ, v = env[var]
                if typ == "s":
                    v = bytes.fromhex(v)
                f = predicate(var, typ).get(n)
                if f is None:
                    continue
                want = bool(f(v))
                if (verd.get(n) == 1) != want:
                    chk.violation("wrong-value-visible", dict(
                        wit_base, op_index=i, through=e[1], variable=var, model_value=repr(v), probe=cond, expected=want,
                        verdict=verd.get(n)))
                    return
    if m["nvars"] >= 2:
        stats["nontrivial"].add(hashlib.sha256(case.script().encode()).hexdigest())
    if len(stats["samples"]) < 3:
        stats["samples"].append({"operations": [l for l in case.lines if l.split()[0] in ("cdef", "rdef", "sdef", "snew", "scan", "sdestroy")][:14]})


def main(args):
    chk = common.Check(PID, args.tier, args.seed)
    exe = harness.get_exe("asan")
    ncases = int((2500 if args.tier == "quick" else 40000) * args.scale)
    rng = chk.rng
    seeds = [(rng.getrandbits(64), "c%d" % i) for i in range(ncases)]
    with multiprocessing.Pool(16) as pool:
        cases = pool.map(build_case, seeds, chunksize=32)
    results = harness.run_cases(exe, cases, "c20", cpu=300)
    stats = dict(sequences=0, scans=0, nontrivial=set(), samples=[], ops={}, codes=set())
    for c in cases:
        evaluate(chk, c, results[c.cid], stats)
    return chk.finish(
        evaluations=stats["scans"] + sum(stats["ops"].values()),
        distinct_nontrivial=len(stats["nontrivial"]),
        rule="random operation sequences (<=25 ops after compilation): compiler-level defines of the four types incl. "
             "duplicates with another type; rule-set defines (valid, wrong type, unknown identifier); creation of up to 3 "
             "scanners; scanner-level defines (valid, wrong type, unknown); scans through a scanner or through "
             "yr_rules_scan_mem; destroys in any order. Every return code is compared with the model's, and every scan's "
             "verdict vector of ~10 probe rules per variable (value tests and uses with arithmetic, bitwise, shift, "
             "boolean, float and string operators, `matches`, a range bound) with the value the three-level model says "
             "that scan must see. LSan after each sequence. non-trivial = sequence with >=2 variables; distinct by sha256 "
             "of the sequence",
        samples=stats["samples"],
        extra={"sequences": stats["sequences"], "operation_counts": stats["ops"], "scans_read_back": stats["scans"],
               "(operation, return code) pairs seen": sorted(stats["codes"])},
        assumptions=["integer<->boolean cross definitions: accepted at scanner level, rejected at rule-set level (the model "
                     "follows the code returned by the current implementation, the manual is silent)"],
        min_nontrivial=50)
