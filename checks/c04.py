"""C04 - rule conditions evaluate per the documented language semantics.
Oracle: Python evaluator of the documented language (vlib/m_cond.py) on brute-force match sets."""
import hashlib
import multiprocessing
import random

from vlib import common, harness, m_cond
from vlib.harness import Case, hx

PID = "C04"

STRING_POOL = [b"ab", b"abc", b"aba", b"bb", b"a", b"cab", b"bca", b"aa", b"xyz", b"abab"]
IDS = ["_a", "_a1", "_b", "_c", "_b2"]


def skeleton(n):
    """condition skeleton for distinctness: node kinds only"""
    if isinstance(n, tuple) and n and isinstance(n[0], str):
        return "(" + n[0] + (n[1] if n[0] in ("bin", "cmp", "sop", "read") else "") + \
            "".join(skeleton(c) for c in n[1:] if isinstance(c, (tuple, list))) + ")"
    if isinstance(n, list):
        return "[" + "".join(skeleton(c) for c in n) + "]"
    return ""


def gen_buffers(rng, pats):
    bufs = [b""]
    alpha = b"abc"
    for _ in range(2):
        parts = []
        for _ in range(rng.randint(0, 8)):
            r = rng.random()
            if r < 0.6:
                parts.append(rng.choice(pats))
            else:
                parts.append(bytes(rng.choice(alpha + b"xz\x00\xff") for _ in range(rng.randint(1, 4))))
        bufs.append(b"".join(parts)[:90])
    if rng.random() < 0.5:
        bufs[0] = rng.choice(pats)[:1]
    return bufs


def build_case(seed_cid):
    seed, cid = seed_cid
    rng = random.Random(seed)
    ns = rng.randint(1, 4)
    ids = IDS[:ns]
    pats = [rng.choice(STRING_POOL) for _ in ids]
    bufs = gen_buffers(rng, pats)
    ext = {"ei0": ("i", 0), "ei": ("i", rng.choice([1, 3, 5, 64, 1 << 40])), "ef": ("f", rng.choice([0.5, 2.0, -1.25, 3.0])),
           "eb": ("b", rng.random() < 0.5), "es": ("s", rng.choice([b"abc", b"xABCx", b"", b"ab"]))}
    nr = rng.randint(1, 4)
    rules = []
    src = []
    stats = {}
    for k in range(nr):
        g = m_cond.Gen(rng, ids, ext, ["r%d" % j for j in range(k)], len(bufs[-1]))
        g.allow_rule_wildcard = (k == nr - 1)
        m_cond.EXT_CONST.clear()
        m_cond.EXT_CONST.update({nm: v for nm, (t, v) in ext.items() if t in ("i", "f")})
        for _ in range(20):
            cond = g.bool_expr(rng.randint(1, 5))
            if not m_cond.has_const_problem(cond):
                break
        for kk, vv in g.stats.items():
            stats[kk] = stats.get(kk, 0) + vv
        text = m_cond.render(cond)
        rules.append((cond, text))
        sdecl = "\n".join("    $%s = %s" % (i, m_cond.qstr(p)) for i, p in zip(ids, pats))
        src.append("rule r%d {\n  strings:\n%s\n  condition:\n    %s\n}" % (k, sdecl, text))
    text = "\n".join(src) + "\n"
    # optionally, an earlier namespace holding rules with the same names/prefix but other truth values
    other_ns = None
    if rng.random() < 0.35:
        names = ["r%d" % j for j in rng.sample(range(0, 9), rng.randint(1, 4))]
        other_ns = "\n".join("rule %s { condition: %s }" % (nm, rng.choice(["true", "false"])) for nm in sorted(names)) + "\n"
    expected = []
    for b in bufs:
        matches = {i: m_cond.all_matches(b, p) for i, p in zip(ids, pats)}
        rv = {}
        row = []
        for k, (cond, _t) in enumerate(rules):
            env = m_cond.Env(b, matches, {nm: v for nm, (t, v) in ext.items()}, dict(rv))
            env.current_rule = "r%d" % k
            try:
                v = m_cond.truth(m_cond.ev(cond, env))
            except RecursionError:
                v = m_cond.AMB
            if v is m_cond.UNDEF:
                v = False
            rv["r%d" % k] = v
            row.append("A" if v is m_cond.AMB else ("T" if v else "F"))
        expected.append(row)
    lines = ["cnew 0"]
    for nm, (t, v) in ext.items():
        if t == "s":
            lines.append("cdef 0 s %s %s" % (hx(nm), hx(v)))
        elif t == "f":
            lines.append("cdef 0 f %s %r" % (hx(nm), v))
        elif t == "b":
            lines.append("cdef 0 b %s %d" % (hx(nm), 1 if v else 0))
        else:
            lines.append("cdef 0 i %s %d" % (hx(nm), v))
    if other_ns is not None:
        lines.append("cadd 0 %s %s" % (hx("alpha"), hx(other_ns)))
    lines += ["cadd 0 - " + hx(text), "crules 0 0"]
    for j, b in enumerate(bufs):
        lines.append("buf %d %s" % (j, hx(b)))
        lines.append("scan r0 mem %d 0 0 -" % j)
    int_body = [any_int_loop_body(c) for c, _t in rules]
    meta = dict(other_ns=other_ns, src=text, bufs=bufs, expected=expected, conds=[t for _c, t in rules], skel=[skeleton(c) for c, _t in rules],
                stats=stats, int_body=int_body, ext={k: (t, v if not isinstance(v, bytes) else v.hex()) for k, (t, v) in ext.items()})
    return Case(cid, lines, meta)


def any_int_loop_body(n):
    if isinstance(n, tuple) and n and isinstance(n[0], str):
        if n[0] == "forof" and n[3][0] == "intbool":
            return True
        if n[0] == "forin" and n[4][0] == "intbool":
            return True
        return any(any_int_loop_body(c) for c in n[1:])
    if isinstance(n, list):
        return any(any_int_loop_body(c) for c in n)
    return False


def evaluate(chk, case, res, stats):
    m = case.meta
    wit_base = {"rule_source": m["src"], "namespace_alpha_source": m.get("other_ns"), "externals": m["ext"],
                "script": case.script()}
    if res.status != "ok":
        if res.status.startswith("flaky") or res.status in ("missing", "harness"):
            chk.inconc("%s: %s" % (case.cid, res.status))
            return
        key = common.sanitizer_key(res.stderr) if res.status == "crash" else (
            common.leak_keys(res.stderr)[0] if res.status == "leak" else "hang")
        chk.violation("%s:%s" % (res.status, key), dict(wit_base, stderr=res.stderr[-3000:]))
        return
    cadd = res.ops("cadd")
    crules = res.ops("crules")
    for kk, vv in m["stats"].items():
        stats["ops"][kk] = stats["ops"].get(kk, 0) + vv
    if not cadd or any(c["errors"] != 0 for c in cadd) or not crules or crules[0]["rc"] != 0:
        stats["rejected"] += 1
        msgs = [mm[3] for mm in (cadd[0]["msgs"] if cadd else []) if mm[0] == 0]
        chk.violation("well-typed-condition-rejected:" + (msgs[0][:40] if msgs else "?"), dict(wit_base, compile=cadd))
        return
    scans = res.ops("scan")
    for j, sc in enumerate(scans):
        if sc["rc"] != 0:
            chk.violation("scan-error-rc%d" % sc["rc"], dict(wit_base, scan=j))
            continue
        verdicts = {mm[1]: mm[0] for mm in sc["msgs"] if mm[0] in (1, 2)}
        # a wrong earlier rule poisons later ones that reference it: stop at the first disagreement
        for k, want in enumerate(m["expected"][j]):
            stats["evals"] += 1
            v = verdicts.get("default:r%d" % k)
            if want == "A":
                stats["ambiguous"] += 1
                break
            stats["nontrivial"].add(hashlib.sha256((m["skel"][k] + "|%d" % len(m["bufs"][j])).encode()).hexdigest())
            stats["skeletons"].add(m["skel"][k])
            if v is None or (v == 1) != (want == "T"):
                w = dict(wit_base, rule="r%d" % k, condition=m["conds"][k], buffer_hex=m["bufs"][j].hex(),
                         expected=want, verdict=v)
                if m["int_body"][k]:
                    chk.violation("integer-loop-body", w)
                else:
                    chk.violation("wrong-verdict", w)
                break
            if len(stats["samples"]) < 6 and len(m["conds"][k]) > 40:
                stats["samples"].append({"condition": m["conds"][k], "buffer_hex": m["bufs"][j].hex(), "verdict": want})


def main(args):
    chk = common.Check(PID, args.tier, args.seed)
    exe = harness.get_exe("asan")
    ncases = int((8000 if args.tier == "quick" else 80000) * args.scale)
    rng = chk.rng
    seeds = [(rng.getrandbits(64), "c%d" % i) for i in range(ncases)]
    with multiprocessing.Pool(16) as pool:
        cases = pool.map(build_case, seeds, chunksize=32)
    results = harness.run_cases(exe, cases, "c04", cpu=300)
    stats = dict(evals=0, nontrivial=set(), skeletons=set(), samples=[], rejected=0, ambiguous=0, ops={})
    for c in cases:
        evaluate(chk, c, results[c.cid], stats)
    return chk.finish(
        evaluations=stats["evals"],
        distinct_nontrivial=len(stats["nontrivial"]),
        rule="(rule condition, buffer) evaluations: typed random expression trees (depth<=6) printed with MINIMAL "
             "parentheses per the manual's precedence table, over string presence/count/offset/length, at/in, of and "
             "for..of/for..in with all/any/none/N/N%, integer+bitwise+shift arithmetic, float promotion, comparisons, "
             "string operators, intN/uintN readers at and past the end, filesize, earlier-rule references and four "
             "external types; 3 buffers per rule set (empty/one/many matches). non-trivial = the model gives a definite "
             "verdict (not 'manual silent'); distinct by (condition skeleton, buffer length)",
        samples=stats["samples"],
        extra={"compilations": len(cases), "distinct_condition_skeletons": len(stats["skeletons"]),
               "evaluations_skipped_manual_silent": stats["ambiguous"], "operator_kinds_generated": stats["ops"],
               "rule_sets_rejected": stats["rejected"]},
        assumptions=["float == / != operands are bit-identical or >=1e-3 apart", "quantifier 0, empty iteration sets with "
                     "all/none, undefined loop bounds/quantifiers are not judged (manual silent)"],
        min_nontrivial=50)
