"""C16 - allocation failure anywhere is reported, never suffered.
Oracle: link-time interposition (--wrap=malloc,calloc,realloc,strdup,strndup) fails the k-th allocation made
inside a libyara API call, for every k; each k runs in a forked child under ASan+LSan and its per-call results
are classified against the fault-free baseline."""
import json
import os
import shutil
import subprocess
from concurrent.futures import ThreadPoolExecutor

from vlib import build, common, harness
from vlib.harness import hx

REPO_PREFIX = common.REPO_PREFIX
PID = "C16"
E_NOMEM = 1
DATA = "/repo/tests/data/"

RULES_A = r'''
import "pe"
import "hash"
import "math"
import "elf"
rule s1 : t1 t2 { meta: a = "x" b = 3 c = true strings: $a = "needle" wide ascii nocase $b = { 6e 65 ?? 64 [1-3] 65 } $c = /ne+d(le|xx)[0-9]{0,2}/ $d = "xorme" xor $e = "b64text" base64 $f = { 6e 65 65 64 [201-210] 6c 65 } condition: any of them }
rule s2 { strings: $a = "ab" fullword condition: #a > 1 and @a[2] > 0 and for any i in (1..#a) : (@a[i] < 100) }
rule s3 { condition: pe.number_of_sections > 2 and hash.md5(0, 100) != "" and math.entropy(0, filesize) > 1.0 }
rule s4 { condition: for any s in ("ab", "cd") : (xs contains s) or xs matches /a.c/ or xi == 7 or xf > 1.0 or xb }
rule s5 { condition: 2 of (s*) or 50% of (s1, s2) }
private rule p1 { condition: filesize > 0 }
global rule g1 { condition: filesize < 100000000 }
include "inc1.yar"
'''
INC1 = 'rule i1 { strings: $x = "incl" condition: $x or elf.type == elf.ET_EXEC }\n'
SENTINEL = 'rule sent { strings: $a = "needle" condition: $a and filesize > 3 }\n'


def scenario(name):
    pre = []
    pre.append("buf 0 " + hx(b"xx needle NEEDLE n\x00e\x00e\x00d\x00l\x00e\x00 neeedle7 ab ab ab abc incl " + b"need" + b"-" * 205 + b"le"))
    pre.append("buffile 1 " + DATA + "tiny")
    pre.append("buf 2 " + hx(b"needle"))
    defs = ["cdef 0 i %s 7" % hx("xi"), "cdef 0 f %s 1.5" % hx("xf"), "cdef 0 b %s 1" % hx("xb"), "cdef 0 s %s %s" % (hx("xs"), hx(b"abc"))]
    comp = ["cnew 0"] + defs + ["incl %s %s" % (hx("inc1.yar"), hx(INC1)), "cadd 0 - " + hx(RULES_A), "crules 0 0"]
    if name == "compile_scan":
        win = comp + ["scan r0 mem 0 0 0 -", "scan r0 mem 1 0 0 -", "stats 0"]
    elif name == "save_load":
        pre += comp
        win = ["rsave 0 0 stream 7", "rsave 0 1 file 0", "rload 0 1 stream 3", "scan r1 mem 0 0 0 -", "rload 1 2 file 0",
               "scan r2 mem 0 0 0 -"]
    elif name == "scanner_api":
        pre += comp
        win = ["snew 0 0", "sdef 0 s %s %s" % (hx("xs"), hx(b"zzz a-c")), "sdef 0 i %s 9" % hx("xi"),
               "scan s0 mem 0 0 0 -", "scan s0 file 1 0 0 -", "scan s0 fd 0 0 0 -", "scan s0 blocks 0 0 0 - @3 1 1000 -",
               "rdef 0 s %s %s" % (hx("xs"), hx(b"redefined")), "rdef 0 s %s %s" % (hx("xs"), hx(b"again")),
               "scan r0 file 0 0 0 -", "scan r0 fd 1 0 0 -", "snew 0 1", "scan s1 mem 0 8 0 -"]
    elif name == "regex_scan":
        rx = ('rule x1 { strings: $a = /\\bne(e|d)+le\\b/ $b = /^xx (n|m)e+dle/ $c = /b{1,3}(c|d)$/ $d = /(ab|abc)\\B.{0,3}?x/ wide ascii $e = /x\\B(a|b)+c/ $f = /le\\b( |\\.)+a/ '
              'condition: any of them }\nrule x2 { condition: xs matches /^(a|b)+c/ or xs matches /^a(b|c)+$/ or xs matches /\\bz+\\b/ }\n')
        pre += ["cnew 0", "cdef 0 s %s %s" % (hx("xs"), hx(b"abcbc")), "cadd 0 - " + hx(rx), "crules 0 0",
                "buf 3 " + hx(b"xx needle abcx xabac a\x00b\x00c\x00x\x00 bbd")]
        win = ["snew 0 0", "scan s0 mem 3 0 0 -", "scan s0 mem 3 0 0 -", "scan r0 mem 3 0 0 -"]
    elif name == "compile_save_load":
        # the whole life of a rule set inside the window: an allocation failure swallowed during compilation must not
        # surface later as a saved image that misbehaves once the original is gone
        win = comp + ["rsave 0 0 stream 7", "rload 0 1 stream 3", "rdestroy 0", "cdestroy 0", "scan r1 mem 0 0 0 -", "scan r1 mem 1 0 0 -"]
    elif name == "many_matches":
        # tens of thousands of matches: the match notebook grows page by page during the scan
        pre += ["cnew 0", "cadd 0 - " + hx('rule mm { strings: $a = "ab" $b = /b[a-z]/ condition: #a > 10 and #b > 10 }\n'), "crules 0 0",
                "bufrep 3 %s 40000 %s" % (hx(b"ab"), hx(b" end"))]
        win = ["snew 0 0", "scan s0 mem 3 0 0 - - - 1000 n", "scan s0 mem 3 0 0 - - - 1000 n", "scan r0 mem 3 0 0 - - - 1000 n"]
    else:
        win = ["fini", "init", "cnew 0"] + defs[:2] + ["cadd 0 - " + hx("rule bad { strings: $a = /(a|b/ condition: $a }"),
               "cnew 1", "cadd 1 %s %s" % (hx("ns"), hx('rule ok { strings: $a = { 01 02 [2-4] 03 } $b = "x" xor(1-3) condition: 1 of them }\nrule bad2 { condition: nope }')),
               "cnew 2", "cadd 2 - " + hx(SENTINEL), "caddfile 2 %s %s" % (hx("n2"), hx(SENTINEL)), "crules 2 0", "scan r0 mem 2 0 0 -"]
    rec = ["cnew 3", "cadd 3 - " + hx(SENTINEL), "crules 3 3", "scan r3 mem 2 0 0 -"]
    L = ["case " + name, "oomoff"] + pre + ["oomrearm"] + win + ["oomoff"] + rec + ["end"]
    return "\n".join(L) + "\n"


SCENARIOS = ["compile_scan", "save_load", "scanner_api", "init_compile_errors", "regex_scan", "many_matches", "compile_save_load"]


def run_oom(exe, script_text, outdir, kfrom, kto, after, stride, par):
    os.makedirs(outdir, exist_ok=True)
    spath = os.path.join(outdir, "scenario.txt")
    with open(spath, "w") as f:
        f.write("workdir %s\n" % outdir)
        f.write(script_text)
    env = dict(os.environ)
    env["ASAN_OPTIONS"] = harness.ASAN_OPTS
    env["UBSAN_OPTIONS"] = harness.UBSAN_OPTS
    env["LSAN_OPTIONS"] = harness.LSAN_OPTS
    env["YRH_OOM_PAR"] = str(par)
    p = subprocess.run([exe, "--oom", spath, str(kfrom), str(kto), str(after), outdir, str(stride)], stdout=subprocess.PIPE,
                       stderr=subprocess.PIPE, env=env, cwd=outdir, timeout=3600)
    total = 0
    status = {}
    for line in p.stdout.decode().split("\n"):
        if not line.startswith("{"):
            continue
        d = json.loads(line)
        if "total" in d:
            total = d["total"]
        elif "k" in d:
            status[d["k"]] = (d["status"], d["sig"])
    return total, status


def read_ops(path):
    ops = []
    end_leak = None
    try:
        with open(path) as f:
            for line in f:
                if line.startswith("{"):
                    try:
                        ops.append(json.loads(line))
                    except ValueError:
                        ops.append({"op": "garbled"})
                elif line.startswith("END "):
                    end_leak = line.split()[2] != "0"
    except OSError:
        pass
    return ops, end_leak


def op_sig(o):
    return {k: v for k, v in o.items() if k not in ("work", "count", "failed", "leak")}


def acceptable_failure(o):
    op = o.get("op")
    if o.get("skipped"):
        return True
    if op == "cadd":
        return o.get("errors", 0) != 0      # (C07, not C16, demands a message with it)
    if op in ("crules", "rsave", "rload", "snew", "scan", "cdef", "rdef", "sdef", "cnew", "init", "fini", "stats", "cfg"):
        return o.get("rc") == E_NOMEM
    return False


def failed_site(err):
    """innermost libyara frames of the allocation that was made to fail"""
    import re
    i = err.find("OOM-INJECTED k=")
    j = err.find("OOM-INJECTED-END")
    if i < 0:
        return "?"
    frames = []
    for m in re.finditer(r"#\d+ 0x[0-9a-f]+ in (\S+) (\S+)", err[i:j if j > i else None]):
        fn, loc = m.group(1), m.group(2)
        if ((REPO_PREFIX in loc) or loc.startswith("libyara/")) and fn not in ("yr_malloc", "yr_calloc", "yr_realloc", "yr_strdup", "yr_strndup"):
            frames.append(fn)
        if len(frames) >= 2:
            break
    return ">".join(frames) or "?"


def classify(chk, scen, k, after, st, outdir, base_ops, stats):
    ops, end_leak = read_ops(os.path.join(outdir, "oom_%d.out" % k))
    err = ""
    try:
        err = open(os.path.join(outdir, "oom_%d.err" % k), errors="replace").read()
    except OSError:
        pass
    w = dict(scenario=scen, failing_allocation=k, all_later_fail_too=bool(after),
             cmd="build/asan/yrh_oom --oom <scenario %s> %d %d %d <dir> 1   (see checks/c16.py scenario())" % (scen, k, k, after))
    status, sig = st
    if sig or status not in (0, 77):
        j = err.find("OOM-INJECTED-END")
        key = common.sanitizer_key(err[j:] if j >= 0 else err) if err else "signal%d" % sig
        chk.violation("crash:%s [allocation failed in %s]" % (key, failed_site(err)), dict(w, stderr=err[-3000:]))
        stats["outcome"]["crash"] += 1
        return
    # walk the ops against the baseline
    failed_seen = False
    after_off = False
    noff = 0
    for i, o in enumerate(ops):
        if o.get("op") == "total":
            break
        b = base_ops[i] if i < len(base_ops) else None
        if o.get("op") == "oomoff":
            noff += 1
            after_off = noff >= 2
            continue
        if after_off:
            # recovery segment: must equal the baseline exactly
            if b is None or op_sig(o) != op_sig(b):
                chk.violation("library-unusable-after-failure", dict(w, op=o, baseline=b))
                stats["outcome"]["unusable"] += 1
                return
            continue
        if failed_seen:
            continue
        if b is not None and op_sig(o) == op_sig(b):
            continue
        if acceptable_failure(o):
            failed_seen = True
            if o.get("op") == "cadd" and any(mm[0] == 0 and not mm[3] for mm in o.get("msgs", [])):
                chk.violation("failure-with-empty-error-message", dict(w, op=o))
            continue
        chk.violation("success-with-different-results:%s [allocation failed in %s]" % (o.get("op"), failed_site(err)),
                      dict(w, op=o, baseline=b))
        stats["outcome"]["wrong"] += 1
        return
    if status == 77 or end_leak:
        j = err.find("OOM-INJECTED-END")
        for key in common.leak_keys(err[j:] if j >= 0 else err):
            chk.violation("leak:" + key.replace("leak@", ""), dict(w, stderr=err[-2500:]))
        stats["outcome"]["leak"] += 1
        return
    stats["outcome"]["reported" if failed_seen else "completed"] += 1
    stats["nontrivial"].add((scen, k, after))


def main(args):
    chk = common.Check(PID, args.tier, args.seed, level="fault_enumeration")
    info = build.build_harness("asan", "yrh_oom", ["yrh.c", "oom_wrap.c"],
                               extra_ldflags=["-Wl,--wrap=malloc,--wrap=calloc,--wrap=realloc,--wrap=strdup,--wrap=strndup"])
    exe = info["exe"]
    base = harness.workdir("c16")
    stats = dict(outcome=dict(crash=0, wrong=0, leak=0, reported=0, completed=0, unusable=0), nontrivial=set(), totals={}, samples=[])
    evaluations = 0
    exhaustive = args.tier == "thorough"
    dense = int(400 * args.scale)
    for scen in SCENARIOS:
        text = scenario(scen)
        for after in (0, 1):
            outdir = os.path.join(base, "%s_%d" % (scen, after))
            shutil.rmtree(outdir, ignore_errors=True)
            # dense prefix
            total, status = run_oom(exe, text, outdir, 1, dense if not exhaustive else 10 ** 9, after, 1, 16)
            stats["totals"][scen] = total
            base_ops, _ = read_ops(os.path.join(outdir, "oom_base.out"))
            if not base_ops or total == 0:
                raise common.HarnessFailure("dry run of scenario %s produced nothing" % scen)
            if not exhaustive and total > dense:
                stride = max(1, (total - dense) // int(300 * args.scale or 1))
                _t, st2 = run_oom(exe, text, outdir, dense + 1 + (args.seed % stride), total, after, stride, 16)
                status.update(st2)
            for k in sorted(status):
                evaluations += 1
                classify(chk, scen, k, after, status[k], outdir, base_ops, stats)
            if len(stats["samples"]) < 4:
                stats["samples"].append({"scenario": scen, "allocations_in_dry_run": total, "k_tried": len(status),
                                         "then_all_later_fail": bool(after)})
            shutil.rmtree(outdir, ignore_errors=True)
    shutil.rmtree(base, ignore_errors=True)
    return chk.finish(
        evaluations=evaluations,
        distinct_nontrivial=len(stats["nontrivial"]),
        rule="scenario set {compile+scan of a rule set with every string kind, chains, loops, imports, externals and an "
             "include; save/load through stream and file; scanner API incl. file/fd/blocks scans and rule-set string "
             "defines; finalize/initialize + failing compilations + add_file}; for every k up to 400 (then a stride; "
             "EVERY k in the thorough tier) the k-th allocation made inside libyara API calls fails, once alone and once "
             "with all later allocations failing too; each k runs in a forked child under ASan+LSan. A k is non-trivial "
             "when the child neither crashed, leaked, returned success with results different from the fault-free run, "
             "nor left the library unusable (sentinel compile+scan after the fault window); distinct by (scenario, k, mode)",
        samples=stats["samples"],
        extra={"allocations_per_scenario": stats["totals"], "outcomes": stats["outcome"]},
        assumptions=["allocations made by libcrypto and libc internals are not failed (not wrapped)",
                     "an API call may report ERROR_INSUFFICIENT_MEMORY or a compile error, or complete with the baseline result"],
        min_nontrivial=50, exhaustive=exhaustive)
