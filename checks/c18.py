"""C18 - command-line results are independent of thread count and rule form.
Oracle: black-box differential on parsed output records (multi-threaded directory scan vs single-file
single-thread invocations vs -p 1; source vs yarac-compiled rules) + offline checker over the H4 event
log of the file queue (exactly-once, bounded queue, conservation)."""
import collections
import hashlib
import os
import random
import shutil
import subprocess
from concurrent.futures import ThreadPoolExecutor

from vlib import build, common, harness

PID = "C18"
DATA = "/repo/tests/data/"
MAXQ = 64

RULES_MAIN = r'''
rule text_hit : tagA tagB { meta: author = "me" score = 5 flag = true strings: $a = "needle" $b = /ne+dle[0-9]/ $x = "xorme" xor condition: any of them }
rule small : tagA { condition: filesize < 100 }
rule pe_file : tagC { strings: $mz = { 4d 5a } condition: $mz at 0 }
rule ext_rule { condition: ext_i == 5 and ext_s contains "v" }
rule ext_float { condition: ext_f > 1.5 and ext_f < 3.0 }
rule ext_bool { condition: ext_b }
rule many_strings { strings: $s1 = "ab" $s2 = "cd" $s3 = "ef" condition: 2 of them }
private rule priv { condition: true }
global rule g { condition: filesize < 50000000 }
'''
RULES_NS2 = 'rule other_ns { strings: $n = "needle" wide ascii nocase condition: #n > 1 }\n'


HANGS = []


def run(cmd, env=None, timeout=40, cpus=None):
    if cpus:
        cmd = ["taskset", "-c", cpus] + cmd
    try:
        p = subprocess.run(cmd, stdout=subprocess.PIPE, stderr=subprocess.PIPE, env=env, timeout=timeout)
    except subprocess.TimeoutExpired as e:
        HANGS.append(" ".join(cmd))
        return -999, e.stdout or b"", (e.stderr or b"") + b"\nerror: (harness) command did not finish"
    return p.returncode, p.stdout, p.stderr


def parse_records(out, countmode=False):
    """Group stdout into records: a rule line plus the string lines printed under it."""
    recs = []
    cur = None
    for line in out.split(b"\n"):
        if not line:
            continue
        if line.startswith(b"0x") and cur is not None:
            cur.append(line)
        else:
            if cur is not None:
                recs.append(tuple(cur))
            cur = [line]
    if cur is not None:
        recs.append(tuple(cur))
    return recs


def make_tree(rng, root, nfiles):
    os.makedirs(root, exist_ok=True)
    files = []
    pe = open(DATA + "tiny", "rb").read()
    elf = open(DATA + "elf_with_imports", "rb").read()
    dirs = [root]
    for d in range(rng.randint(0, 4)):
        p = os.path.join(rng.choice(dirs), rng.choice(["sub", "dir with space", "d", "x.y"]) + str(d))
        os.makedirs(p, exist_ok=True)
        dirs.append(p)
    for i in range(nfiles):
        d = rng.choice(dirs)
        name = rng.choice(["f", "file with space ", "a.b.", "N"]) + "%04d" % i + rng.choice(["", ".txt", ".bin"])
        path = os.path.join(d, name)
        r = rng.random()
        if r < 0.15:
            data = b""
        elif r < 0.3:
            data = pe if rng.random() < 0.5 else elf
        elif r < 0.7:
            data = b" ".join(rng.choice([b"needle", b"neeedle7", b"ab cd", b"ef", b"NEEDLE n\x00e\x00e\x00d\x00l\x00e\x00 needle",
                                         bytes(c ^ 0x21 for c in b"xorme"), b"junk"]) for _ in range(rng.randint(1, 12)))
        else:
            data = bytes(rng.randrange(256) for _ in range(rng.randint(1, 3000)))
        with open(path, "wb") as f:
            f.write(data)
        files.append(path)
    return files


def check_trace(chk, path, nfiles, threads, w, stats):
    """Offline checker over the H4 event log."""
    try:
        lines = open(path, "rb").read().split(b"\n")
    except OSError:
        chk.inconc("no trace file")
        return
    puts = collections.Counter()
    gets = collections.Counter()
    begins = collections.Counter()
    ends = collections.Counter()
    inq = 0
    maxq = 0
    finish_seen = False
    assign = []
    tids = set()
    for l in lines:
        if not l:
            continue
        parts = l.split(b" ", 2)
        ev = parts[0]
        if ev == b"PUT":
            p = l[4:]
            puts[p] += 1
            inq += 1
            maxq = max(maxq, inq)
            if finish_seen:
                chk.violation("enqueue-after-finish", dict(w, path=p.decode("latin1")))
        elif ev == b"GET":
            tid, p = parts[1], parts[2]
            tids.add(tid)
            if p != b"<NULL>":
                gets[p] += 1
                inq -= 1
                assign.append((p, tid))
        elif ev == b"SCAN_BEGIN":
            begins[parts[2]] += 1
        elif ev == b"SCAN_END":
            rest = parts[2].split(b" ", 1)
            ends[rest[1]] += 1
        elif ev == b"FINISH":
            finish_seen = True
    stats["events"] += len(lines)
    stats["max_in_queue"] = max(stats["max_in_queue"], maxq)
    stats["assignments"].add(hashlib.sha256(repr(sorted(assign)).encode()).hexdigest())
    stats["threads_seen"] = max(stats["threads_seen"], len(tids))
    if maxq > MAXQ:
        chk.violation("queue-bound-exceeded", dict(w, max_in_queue=maxq))
    if sum(puts.values()) != nfiles:
        chk.violation("not-every-file-enqueued", dict(w, enqueued=sum(puts.values()), files=nfiles))
    for p, n in puts.items():
        if gets[p] != n or begins[p] != n or ends[p] != n:
            chk.violation("file-not-scanned-exactly-once", dict(w, path=p.decode("latin1"), put=n, get=gets[p], scan_begin=begins[p],
                                                                 scan_end=ends[p]))
            break
    extra = set(gets) - set(puts)
    if extra:
        chk.violation("dequeued-path-never-enqueued", dict(w, path=sorted(extra)[0].decode("latin1")))


def main(args):
    chk = common.Check(PID, args.tier, args.seed)
    info = build.build_lib("plain")
    yara = os.path.join(info["root"], "yara")
    yarac = os.path.join(info["root"], "yarac")
    rng = chk.rng
    base = harness.workdir("c18")
    shutil.rmtree(base, ignore_errors=True)
    os.makedirs(base)
    rules = os.path.join(base, "main.yar")
    rules2 = os.path.join(base, "ns2.yar")
    open(rules, "w").write(RULES_MAIN)
    open(rules2, "w").write(RULES_NS2)
    ncombos = int((14 if args.tier == "quick" else 200) * args.scale) or 1
    stats = dict(runs=0, events=0, max_in_queue=0, assignments=set(), threads_seen=0, orders=set(), records=0, nontrivial=set(),
                 samples=[], single_invocations=0)
    optpool = [["-s"], ["-L"], ["-s", "-L"], ["-m"], ["-g"], ["-e"], ["-s", "-X"], ["-c"], ["-n"], ["-t", "tagA"], ["-i", "small"],
               ["-f"], ["-w"], ["-s", "-m", "-g"], [], ["-l", "3"], ["-N"]]
    for combo in range(ncombos):
        if len(HANGS) >= 3:
            break       # the binary hangs: no point in waiting for more watchdogs
        nfiles = rng.choice([0, 1, 7, 65, 130, 400] if args.tier == "quick" else [0, 1, 7, 64, 65, 66, 130, 1000, 5000])
        tree = os.path.join(base, "tree%d" % combo)
        files = make_tree(rng, tree, nfiles)
        opts = list(rng.choice(optpool))
        exts = ["-d", "ext_i=%d" % rng.choice([5, 6]), "-d", "ext_s=%s" % rng.choice(["value", "zz"]),
                "-d", "ext_f=%s" % rng.choice(["2.5", "0.25", "7.0"]), "-d", "ext_b=%s" % rng.choice(["true", "false"])]
        use_ns = rng.random() < 0.3
        rule_args = [rules] if not use_ns else ["main:" + rules, "second:" + rules2]
        limited = "-l" in opts
        w0 = {"options": opts + exts, "files": nfiles, "rule_files": rule_args}

        def invoke(extra, target, trace=None, jitter=None, cpus=None, compiled=None, ext=exts):
            env = dict(os.environ)
            if trace:
                env["YARA_VERIF_TRACE"] = trace
            if jitter is not None:
                env["YARA_VERIF_JITTER"] = str(jitter)
            cmd = [yara] + opts + ext + extra + (["-r"] if os.path.isdir(target) else []) + (["-C", compiled] if compiled else rule_args) + [target]
            stats["runs"] += 1
            return run(cmd, env=env, cpus=cpus)
        # reference: every file (or a sample) in its own single-threaded invocation
        sample = files if len(files) <= 150 else rng.sample(files, 100)
        ref_records = collections.Counter()

        def single(path):
            return path, invoke(["-p", "1"], path)
        with ThreadPoolExecutor(16) as ex:
            for path, (rc, out, err) in ex.map(single, sample):
                stats["single_invocations"] += 1
                recs = parse_records(out)
                if "-c" in opts:
                    # single-file mode prints just the count: normalise to "path: N" as directory mode prints it
                    recs = [(path.encode() + b": " + r[0],) for r in recs]
                for r in recs:
                    ref_records[r] += 1
                if (rc != 0) != (b"error" in err):
                    chk.violation("exit-status-vs-error-message", dict(w0, file=path, exit=rc, stderr=err.decode("latin1")[:300]))
        # -p 1 directory run: the full reference for large trees
        rc1, out1, err1 = invoke(["-p", "1"], tree)
        full_ref = collections.Counter(parse_records(out1))
        if len(files) <= 150 and not limited and full_ref != ref_records:
            d1 = list((full_ref - ref_records).elements())[:3]
            d2 = list((ref_records - full_ref).elements())[:3]
            chk.violation("directory-scan-differs-from-single-file-scans", dict(w0, only_in_directory_scan=[b"|".join(x).decode("latin1") for x in d1],
                                                                                only_in_single_file_scans=[b"|".join(x).decode("latin1") for x in d2]))
        elif not limited:
            samp = set(s.encode() for s in sample)
            sub = collections.Counter({r: n for r, n in full_ref.items() if any(r[0].endswith(b" " + s) or r[0].startswith(s + b": ") for s in samp)})
            if len(files) > 150 and sub != ref_records:
                chk.violation("directory-scan-differs-from-single-file-scans", dict(w0, note="sampled files", differing=len(sub - ref_records) + len(ref_records - sub)))
        # multi-threaded runs with jitter / pinning
        for threads in ([1, 2, 3, 4, 8, 16, 32] if args.tier == "quick" else [1, 2, 3, 4, 5, 8, 13, 16, 24, 32]):
            for rep in range(2):
                if len(HANGS) >= 3:
                    break
                trace = os.path.join(base, "trace_%d_%d_%d.log" % (combo, threads, rep))
                cpus = rng.choice([None, None, "0", "0-1", "0-15"])
                rc, out, err = invoke(["-p", str(threads)], tree, trace=trace, jitter=rng.randint(1, 10 ** 6) if rep else None, cpus=cpus)
                w = dict(w0, threads=threads, jitter=bool(rep), cpus=cpus,
                         cmd=" ".join([yara] + opts + exts + ["-p", str(threads)] + rule_args + [tree]))
                recs = parse_records(out)
                got = collections.Counter(recs)
                stats["records"] += len(recs)
                stats["orders"].add(hashlib.sha256(out).hexdigest())
                if limited:
                    bad = [r for r in got if r not in full_ref and "-l" in opts]
                    # with -l the set of files that reach the limit is schedule dependent: only intact records are required
                    torn = [r for r in got if not any(r[0].endswith(f.encode()) or (f.encode() + b": ") in r[0] for f in files)]
                    if torn:
                        chk.violation("torn-output-record", dict(w, record=b"|".join(torn[0]).decode("latin1")[:300]))
                elif got != full_ref:
                    d1 = list((got - full_ref).elements())[:3]
                    d2 = list((full_ref - got).elements())[:3]
                    chk.violation("threaded-output-differs", dict(w, only_with_threads=[b"|".join(x).decode("latin1")[:200] for x in d1],
                                                                  missing_with_threads=[b"|".join(x).decode("latin1")[:200] for x in d2]))
                if (rc != 0) != (b"error" in err):
                    chk.violation("exit-status-vs-error-message", dict(w, exit=rc, stderr=err.decode("latin1")[:300]))
                check_trace(chk, trace, len(files), threads, w, stats)
                try:
                    os.unlink(trace)
                except OSError:
                    pass
        # compiled rules: externals given to yarac, or to yara -C
        comp = os.path.join(base, "rules%d.yarc" % combo)
        carg = rule_args
        for stage in ("yarac", "yara"):
            cmdc = [yarac] + (exts if stage == "yarac" else ["-d", "ext_i=0", "-d", "ext_s=none", "-d", "ext_f=0.0", "-d", "ext_b=false"]) + carg + [comp]
            rcc, outc, errc = run(cmdc)
            if rcc != 0:
                chk.violation("yarac-failed", dict(w0, cmd=" ".join(cmdc), stderr=errc.decode("latin1")[:300]))
                continue
            rc, out, err = invoke(["-p", "4"], tree, compiled=comp, ext=(exts if stage == "yara" else []))
            got = collections.Counter(parse_records(out))
            if not limited and got != full_ref:
                d1 = list((got - full_ref).elements())[:3]
                d2 = list((full_ref - got).elements())[:3]
                chk.violation("compiled-rules-output-differs:" + stage, dict(
                    w0, externals_given_to=stage, only_compiled=[b"|".join(x).decode("latin1")[:200] for x in d1],
                    only_source=[b"|".join(x).decode("latin1")[:200] for x in d2]))
        if full_ref:
            stats["nontrivial"].add(combo)
        if len(stats["samples"]) < 4:
            stats["samples"].append({"files": nfiles, "options": opts, "records_in_reference": sum(full_ref.values())})
        shutil.rmtree(tree, ignore_errors=True)
    # match flood: one file makes a string exceed the 1,000,000-match limit; the files a thread scans afterwards must
    # be reported exactly as in their own invocations (the limit disables the string for the rest of THAT scan only)
    if len(HANGS) < 3:
        ftree = os.path.join(base, "flood")
        os.makedirs(ftree)
        frules = os.path.join(base, "flood.yar")
        open(frules, "w").write("rule pad { strings: %s condition: any of them }\n"
                                'rule flood { strings: $q = "Q" condition: $q }\nrule other { strings: $o = "needle" condition: $o }\n'
                                % " ".join('$p%d = "pad%03dq"' % (i, i) for i in range(140)))
        flist = []
        big = os.path.join(ftree, "000big.bin")
        open(big, "wb").write(b"Q" * 1100000 + b" needle")
        flist.append(big)
        for i in range(24):
            pth = os.path.join(ftree, "f%02d.txt" % i)
            open(pth, "wb").write(b"xx Q yy needle" if i % 3 else b"no hit here" + bytes([65 + i]))
            flist.append(pth)
        slist = os.path.join(base, "flood.list")
        open(slist, "w").write("\n".join(flist) + "\n")
        ref = collections.Counter()
        for pth in flist:
            rc, out, err = run([yara, "-p", "1", frules, pth], timeout=120)
            stats["runs"] += 1
            for r in parse_records(out):
                ref[r] += 1
        for threads in (1, 2, 8):
            for target, extra in ((slist, ["--scan-list"]), (ftree, ["-r"])):
                rc, out, err = run([yara, "-p", str(threads)] + extra + [frules, target], timeout=180)
                stats["runs"] += 1
                got = collections.Counter(parse_records(out))
                if got != ref:
                    chk.violation("output-differs-after-match-limit", dict(
                        threads=threads, mode=extra[0], cmd=" ".join([yara, "-p", str(threads)] + extra + [frules, target]),
                        missing=[b"|".join(x).decode("latin1")[:200] for x in list((ref - got).elements())[:4]],
                        extra=[b"|".join(x).decode("latin1")[:200] for x in list((got - ref).elements())[:4]]))
                else:
                    stats["nontrivial"].add("flood-%d-%s" % (threads, extra[0]))
        shutil.rmtree(ftree, ignore_errors=True)
    # error path: exit status must be non-zero exactly when an error was reported
    tree = os.path.join(base, "errtree")
    files = make_tree(rng, tree, 5)
    for extra, what in ((["--stack-size=1"], "scan error in every file"),):
        for target, mode in ((files[0], "single file"), (tree, "directory")):
            rc, out, err = run([yara] + extra + ["-r", "-d", "ext_i=5", "-d", "ext_s=v", "-d", "ext_f=1.0", "-d", "ext_b=true", rules, target])
            stats["runs"] += 1
            if (rc != 0) != (b"error" in err):
                chk.violation("exit-status-vs-error-message:" + mode.replace(" ", "-"), dict(
                    mode=mode, what=what, exit=rc, stderr=err.decode("latin1")[:300], cmd=" ".join([yara] + extra + [rules, target])))
    shutil.rmtree(base, ignore_errors=True)
    for h in HANGS[:5]:
        chk.violation("cli-run-did-not-finish", dict(cmd=h))
    return chk.finish(
        evaluations=stats["runs"],
        distinct_nontrivial=len(stats["nontrivial"]) + len(stats["assignments"]),
        rule="per generated (directory tree, option set): every file (a sample of 100 for large trees) scanned in its own "
             "`yara -p 1` invocation, the directory scanned with -p 1, then with -p in {1,2,3,4,8,16,32} twice (once "
             "with H4 scheduling jitter, CPU pinning to 1, 2 or 16 cores), then with yarac-compiled rules with the "
             "externals given at either stage; output is parsed into records (rule line + its string lines) and "
             "compared as multisets; exit status is compared with the presence of an error message; the H4 event log "
             "(PUT/GET/SCAN_BEGIN/SCAN_END/FINISH) is checked offline for exactly-once scanning, conservation and the "
             "64-slot bound. Trees: 0..400 files (quick) / up to 5000 (thorough) incl. empty, PE, ELF, text, names with "
             "spaces, nested directories. non-trivial = combos with a non-empty reference + distinct file->thread "
             "assignments observed in the logs",
        samples=stats["samples"],
        extra={"single_file_invocations": stats["single_invocations"], "output_records_compared": stats["records"],
               "queue_events_checked": stats["events"], "max_files_in_queue_observed": stats["max_in_queue"],
               "distinct_file_to_thread_assignments": len(stats["assignments"]), "distinct_output_orders": len(stats["orders"]),
               "max_threads_seen_dequeuing": stats["threads_seen"]},
        assumptions=["-l makes the output legitimately schedule dependent: only intact records are required there",
                     "-c output is normalised between single-file and directory mode"],
        min_nontrivial=5)
